use proto::choose::*; use proto::spell;
use text2num::*;
fn main(){
    std::panic::set_hook(Box::new(|_|{}));
    for l in spell::LANGS {
        let lg=get_interpreter_for(l).unwrap(); let mut r=Rng(0x31337); let (mut tot,mut bad)=(0,0); let mut ex=vec![];
        // digit names as dictated
        let name=|d:u32, r:&mut Rng|->String{ if d==0 { if l=="en" && r.next()%3==0 { "o".into() } else { spell::zero_word(l).into() } } else { let w=spell::cardinal(l,d as u64,&mut Canon).join(" "); if l=="de" && d==1 { "eins".into() } else { w } } };
        // exhaustive up to length 4, random up to 8
        let mut cases:Vec<Vec<u32>>=vec![];
        for len in 1..=4u32 { for x in 0..10u32.pow(len) { cases.push((0..len).rev().map(|i|x/10u32.pow(i)%10).collect()); } }
        for _ in 0..30000 { let len=5+(r.next()%4) as usize; cases.push((0..len).map(|_| if r.next()%3==0 {0} else {(r.next()%10) as u32}).collect()); }
        for ds in cases {
            let words:Vec<String>=ds.iter().map(|&d|name(d,&mut r)).collect();
            // 'o' needs a number neighbour: skip lone "o"
            if words.len()==1 && words[0]=="o" { continue; }
            let text=words.join(" ");
            // expected grouping
            let mut groups:Vec<String>=vec![]; let mut cur=String::new();
            for &d in &ds { cur.push(char::from(b'0'+d as u8)); if d!=0 { groups.push(std::mem::take(&mut cur)); } }
            if !cur.is_empty() { groups.push(cur); }
            let want=groups.join(" ");
            let got=replace_numbers_in_text(&text,&lg,0.0);
            tot+=1; if got!=want { bad+=1; if ex.len()<10 { ex.push(format!("{:?} want {:?} got {:?}",text,want,got)); } }
        }
        println!("== {l}: total {tot} bad {bad}"); for e in ex { println!("      {e}"); }
    }
}
