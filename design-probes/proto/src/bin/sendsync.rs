use text2num::lang::*; use text2num::Language;
fn a<T: Send + Sync + 'static>() {}
fn main(){ a::<Language>(); a::<English>(); a::<French>(); a::<German>(); a::<Italian>(); a::<Spanish>(); a::<Dutch>(); a::<Portuguese>(); println!("ok"); }
