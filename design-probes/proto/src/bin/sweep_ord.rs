use proto::choose::*; use proto::spell;
use text2num::*;
use std::collections::BTreeMap;
fn lang(c:&str)->Language{ match c {"pt"=>Language::portuguese(), c=>get_interpreter_for(c).unwrap()} }
struct Tok(String, String);
impl Token for &Tok { fn text(&self)->&str{&self.0} fn text_lowercase(&self)->&str{&self.1} }
fn main(){
    std::panic::set_hook(Box::new(|_|{}));
    let a:Vec<String>=std::env::args().collect();
    let langs: Vec<&str> = if a.len()>1 && a[1]!="all" { vec![a[1].as_str()] } else { spell::LANGS.to_vec() };
    let upto: u64 = a.get(2).map(|x|x.parse().unwrap()).unwrap_or(2000);
    let rnd: u64 = a.get(3).map(|x|x.parse().unwrap()).unwrap_or(100000);
    for l in langs {
        let lg=lang(l);
        let mut fails: BTreeMap<String,(u64,Vec<String>)> = BTreeMap::new();
        let (mut total,mut bad,mut excl)=(0u64,0u64,0u64);
        let mut check=|n:u64, sp:Option<(Vec<String>,String)>, tag:&str| {
            let Some((words,marker))=sp else { excl+=1; return; };
            total+=1;
            let text=words.join(" ");
            let want=format!("{}{}",n,marker);
            let got=std::panic::catch_unwind(||text2digits(&text,&lg)).map(|r|r.map_err(|e|format!("{:?}",e))).unwrap_or(Err("PANIC".into()));
            let toks:Vec<Tok>=words.iter().map(|w|Tok(w.clone(),w.to_lowercase())).collect();
            let occ=find_numbers(toks.iter(),&lg,0.0);
            let ok1 = got.as_deref()==Ok(want.as_str());
            let ok2 = occ.len()==1 && occ[0].text==want && occ[0].is_ordinal && occ[0].value==n as f64 && occ[0].start==0 && occ[0].end==toks.len();
            if !(ok1&&ok2) { bad+=1;
                let sig=format!("{} t2d={} occ={}", tag, if ok1{"ok"}else{"BAD"}, if ok2{"ok"}else{"BAD"});
                let e=fails.entry(sig).or_insert((0,vec![])); e.0+=1; if e.1.len()<14 { e.1.push(format!("{} {:?} want {} -> {:?} / {:?}", n, text, want, got, occ)); } }
        };
        let mx=spell::ordinal_max(l);
        for n in 1..=upto.min(mx) { check(n, spell::ordinal(l,n,&mut Canon), "canon"); }
        let mut r=Rng(0x9E3779B97F4A7C15);
        for i in 0..rnd {
            let n = if i%2==0 { 1 + r.next()%mx } else { 1 + r.next() % 2000.min(mx) };
            let w=spell::ordinal(l,n,&mut r);
            check(n,w,"var");
        }
        println!("== {l}: total {total} bad {bad} excluded {excl}");
        for (k,(cnt,ex)) in &fails { println!("  [{k}] x{cnt}"); for e in ex { println!("      {e}"); } }
    }
}
