//! model-based test of DigitString
use proto::choose::*;
use text2num::digit_string::DigitString;
use std::collections::BTreeMap;

#[derive(Clone,Debug,Default)]
struct Model { buf: Vec<u8>, lz: usize, frozen: bool }
impl Model {
    fn render(&self)->String{ let mut s="0".repeat(self.lz); s.push_str(std::str::from_utf8(&self.buf).unwrap()); s }
    fn put(&mut self,d:&[u8])->bool{ if self.frozen {return false}
        if self.buf.is_empty() && d==b"0" { self.lz+=1; return true; }
        if d.iter().all(|&c|c==b'0') { return false; }
        let (l,p)=(self.buf.len(),d.len());
        if l==0 { self.buf=d.to_vec(); return true; }
        if l<p { return false; }
        if self.buf[l-p..].iter().all(|&c|c==b'0') { self.buf[l-p..].copy_from_slice(d); true } else { false } }
    fn put_digit_at(&mut self,d:u8,pos:usize)->bool{ if self.frozen||d==b'0' {return false}
        let l=self.buf.len();
        if pos>=l { let mut nb=vec![b'0';pos+1]; nb[0]=d; nb[pos+1-l..].copy_from_slice(&self.buf); self.buf=nb; true }
        else if self.buf[l-1-pos]==b'0' { self.buf[l-1-pos]=d; true } else { false } }
    fn fput(&mut self,d:&[u8])->bool{ if self.frozen {return false}
        let p=d.len(); if self.buf.len()<p { let l=self.buf.len(); if l==0 { self.buf=d.to_vec(); return true; } let mut nb=vec![b'0';p]; nb[..0].len(); // left-extend? real impl resizes on the right!
            let _=nb; let mut b=self.buf.clone(); b.resize(p,b'0'); self.buf=b; }
        let l=self.buf.len(); self.buf[l-p..].copy_from_slice(d); true }
    fn push(&mut self,d:&[u8])->bool{ self.buf.extend_from_slice(d); true }
    fn shift(&mut self,p:usize)->bool{ if self.frozen {return false} if p==0 {return true}
        if self.buf.is_empty() { self.buf=vec![b'1']; }   // NOTE: real impl does this before knowing success; on empty it always succeeds
        let l=self.buf.len();
        if l<=p { self.buf.resize(l+p,b'0'); return true; }
        // rightmost p-digit group R
        let r=&self.buf[l-p..]; let pad=r.iter().take_while(|&&c|c==b'0').count();
        let (sig, implicit)= if pad==p { (1usize,true) } else { (p-pad,false) };
        // destination: positions p .. p+sig  (from the right) must be zero
        if l<p+sig { return false; }
        if !self.buf[l-p-sig..l-p].iter().all(|&c|c==b'0') { return false; }
        let digits:Vec<u8>= if implicit { vec![b'1'] } else { self.buf[l-sig..].to_vec() };
        self.buf[l-p-sig..l-p].copy_from_slice(&digits);
        for c in &mut self.buf[l-sig..] { *c=b'0'; }
        true }
}
fn observe(d:&DigitString)->String{
    let mut s=format!("{}|len={}|empty={}|null={}|ord={}|flags={}|", d.to_string(), d.len(), d.is_empty(), d.is_null(), d.is_ordinal(), d.flags);
    let n=d.len()+3; for k in 0..n { s.push_str(&format!("p{}={:?};f{}={};q{}={};",k,std::str::from_utf8(d.peek(k)).unwrap(),k,d.is_free(k),k,d.is_position_free(k))); }
    for a in 0..n { for b in a+1..n+1 { s.push(if d.is_range_free(a,b){'1'}else{'0'}); } }
    s.push_str(&format!("|deref={:?}",std::str::from_utf8(&d[..]).unwrap())); s }
fn main(){
    std::panic::set_hook(Box::new(|_|{}));
    let a:Vec<String>=std::env::args().collect();
    let iters: u64 = a.get(1).map(|x|x.parse().unwrap()).unwrap_or(200000);
    let mut r=Rng(0xD161757);
    let mut fails: BTreeMap<String,(u64,Vec<String>)> = BTreeMap::new();
    let mut nfail=0u64; let mut okops=0u64; let mut errops=0u64;
    for _ in 0..iters {
        let mut d=DigitString::new(); let mut m=Model::default(); let mut trace=vec![];
        let steps=1+r.next()%12;
        let res=std::panic::catch_unwind(std::panic::AssertUnwindSafe(||{
        for _ in 0..steps {
            let before=observe(&d);
            let gen_digits=|r:&mut Rng|->Vec<u8>{ let n=1+(r.next()%4) as usize; (0..n).map(|i| if r.next()%3==0 || (i>0 && r.next()%2==0) {b'0'} else {b'0'+(r.next()%10) as u8}).collect() };
            let (desc,ok_real,ok_model,mutating):(String,bool,bool,bool)= match r.next()%16 {
                0..=4 => { let g=gen_digits(&mut r); (format!("put({})",String::from_utf8_lossy(&g)), d.put(&g).is_ok(), m.put(&g), true) }
                5|6 => { let dg=b'0'+(r.next()%10) as u8; let p=(r.next()%8) as usize; (format!("put_digit_at({},{})",dg as char,p), d.put_digit_at(dg,p).is_ok(), m.put_digit_at(dg,p), true) }
                7..=10 => { let p=[0usize,1,2,2,3,3,6,9,12][(r.next()%9) as usize]; (format!("shift({})",p), d.shift(p).is_ok(), m.shift(p), true) }
                11 => { let g=gen_digits(&mut r); (format!("fput({})",String::from_utf8_lossy(&g)), d.fput(&g).is_ok(), m.fput(&g), true) }
                12 => { let g=gen_digits(&mut r); (format!("push({})",String::from_utf8_lossy(&g)), d.push(&g).is_ok(), m.push(&g), true) }
                13 => { d.freeze(); m.frozen=true; ("freeze".into(),true,true,false) }
                14 => { if r.next()%4==0 { d.reset(); m=Model::default(); ("reset".into(),true,true,false) } else { ("noop".into(),true,true,false) } }
                _ => { ("noop".into(),true,true,false) } };
            trace.push(format!("{}={}",desc,if ok_real{"ok"}else{"err"}));
            if ok_real { okops+=1 } else { errops+=1 }
            let after=observe(&d);
            if mutating && !ok_real && before!=after { return Some(format!("failed op changed state: {:?}\n   before {}\n   after  {}",trace,&before[..40.min(before.len())],&after[..40.min(after.len())])); }
            if ok_real!=ok_model { return Some(format!("ok mismatch real={} model={}: {:?} state {}",ok_real,ok_model,trace,m.render())); }
            if d.to_string()!=m.render() { return Some(format!("render mismatch real={} model={}: {:?}",d.to_string(),m.render(),trace)); }
            if d.to_string().len()!=d.len() || !d.to_string().bytes().all(|c|c.is_ascii_digit()) { return Some(format!("invalid render {:?}",trace)); }
        } None }));
        match res { Ok(None)=>{}, Ok(Some(e))=>{ nfail+=1; let k=e.split(':').next().unwrap().to_string(); let en=fails.entry(k).or_insert((0,vec![])); en.0+=1; if en.1.len()<6 { en.1.push(e); } }, Err(_)=>{ nfail+=1; let en=fails.entry("PANIC".into()).or_insert((0,vec![])); en.0+=1; if en.1.len()<6 { en.1.push(format!("{:?}",trace)); } } }
    }
    println!("iters {iters} fails {nfail} okops {okops} errops {errops}");
    for (k,(cnt,ex)) in &fails { println!("  [{k}] x{cnt}"); for e in ex { println!("      {e}"); } }
}
