use proto::choose::*; use proto::spell::{self, vocab::*};
use text2num::*;
use std::collections::BTreeMap; use std::cell::Cell;
#[derive(Clone,Debug,PartialEq)]
struct Occ{start:usize,end:usize,text:String,value:u64,ord:bool}
fn occs(v:Vec<Occurence>)->Vec<Occ>{ v.into_iter().map(|o|Occ{start:o.start,end:o.end,text:o.text,value:o.value.to_bits(),ord:o.is_ordinal}).collect() }
#[derive(Clone,Debug)]
struct Tk{text:String,lower:String,sep:bool,nan:bool}
impl Token for &Tk { fn text(&self)->&str{&self.text} fn text_lowercase(&self)->&str{&self.lower} fn nt_separated(&self,_p:&Self)->bool{self.sep} fn not_a_number_part(&self)->bool{self.nan} }
fn pick_word(v:&Vocab,r:&mut Rng)->String{ let k=r.next()%100;
    if k<55 { let c=&v.classes[(r.next() as usize)%v.classes.len()]; c[(r.next() as usize)%c.len()].clone() } else if k<65 { v.number_words[(r.next() as usize)%v.number_words.len()].clone() }
    else if k<74 { v.linking[(r.next() as usize)%v.linking.len()].to_string() } else if k<86 { v.fillers[(r.next() as usize)%v.fillers.len()].to_string() }
    else if k<90 { v.conj.to_string() } else if k<94 { v.sep.to_string() } else { PUNCT[(r.next() as usize)%PUNCT.len()].to_string() } }
fn gen_clean(v:&Vocab,r:&mut Rng,maxlen:usize)->String{ let n=(r.next() as usize)%(maxlen+1); let mut s=String::new(); for i in 0..n { s.push_str(&pick_word(v,r)); if i+1<n { if r.next()%10==0 { s.push_str(PUNCT[(r.next() as usize)%PUNCT.len()]); } s.push(' '); } } s }
fn main(){
    std::panic::set_hook(Box::new(|_|{}));
    let a:Vec<String>=std::env::args().collect();
    let iters: u64 = a.get(1).map(|x|x.parse().unwrap()).unwrap_or(100000);
    for l in spell::LANGS {
        let lg=get_interpreter_for(l).unwrap(); let v=vocab(l);
        let mut r=Rng(0xC0FFEE ^ (l.as_bytes()[0] as u64)<<24);
        let mut fails: BTreeMap<String,(u64,Vec<String>)> = BTreeMap::new();
        let mut fail=|k:&str, ex:String| { let e=fails.entry(k.to_string()).or_insert((0,vec![])); e.0+=1; if e.1.len()<8 { e.1.push(ex); } };
        let ths=[0.0,3.0,10.0,100.0,f64::INFINITY];
        let seps:Vec<&str>=v.fillers.iter().copied().filter(|w|!["le","du","l'","numéro","point","un"].contains(w)).collect();
        let mut stats=[0u64;4];
        for _ in 0..iters {
            let th=ths[(r.next()%5) as usize];
            // ---- C10 context independence
            let (ta,tb)=(gen_clean(&v,&mut r,6),gen_clean(&v,&mut r,6));
            let mut s=String::from(" "); for _ in 0..3+(r.next()%2) { s.push_str(seps[(r.next() as usize)%seps.len()]); s.push(' '); } s.pop(); s.push_str(". ");
            let whole=format!("{}{}{}",ta,s,tb);
            let got=replace_numbers_in_text(&whole,&lg,th);
            let exp=format!("{}{}{}",replace_numbers_in_text(&ta,&lg,th),s,replace_numbers_in_text(&tb,&lg,th));
            if got!=exp { fail("c10-sep",format!("{:?} th={} got {:?} exp {:?}",whole,th,got,exp)); }
            // punctuation keeps numbers apart
            let (na,nb)=(r.next()%1000, r.next()%1000);
            let p=[", ","; ",": ","! "," / "," ( ","… ",". "," , ",",","?"][(r.next()%11) as usize];
            let t=format!("{}{}{}",spell::cardinal(l,na,&mut r).join(" "),p,spell::cardinal(l,nb,&mut r).join(" "));
            let got=replace_numbers_in_text(&t,&lg,0.0);
            if got!=format!("{}{}{}",na,p,nb) { fail("c10-punct",format!("{:?} -> {:?}",t,got)); }
            // ---- C15 stream with hints
            let n=(r.next()%10) as usize;
            let toks:Vec<Tk>=(0..n).map(|_|{ let w=pick_word(&v,&mut r); let isw=w.chars().next().map_or(false,|c|c.is_alphanumeric()); Tk{lower:w.to_lowercase(),text:w,sep:r.next()%6==0,nan:isw && r.next()%8==0} }).collect();
            let batch=occs(find_numbers(toks.iter(),&lg,th));
            // lazy with consumption tracking
            let consumed=Cell::new(0usize);
            let mut it=find_numbers_iter(toks.iter().inspect(|_|consumed.set(consumed.get()+1)),&lg,th);
            if consumed.get()!=0 { fail("c15-eager-construct",format!("{:?}",toks)); }
            let mut lazy=vec![]; let mut k=0usize;
            loop { match it.next() { Some(o)=>{ let o=occs(vec![o]).pop().unwrap();
                    if k+2<batch.len() && consumed.get()>batch[k+2].end { fail("c15-lookahead",format!("{:?} th={} k={} consumed={} batch={:?}",toks,th,k,consumed.get(),batch)); }
                    if k+2<batch.len() { stats[0]+=1; }
                    lazy.push(o); k+=1; }, None=>break } }
            if it.next().is_some() { fail("c15-not-fused",format!("{:?}",toks)); }
            if lazy!=batch { fail("c15-iter",format!("{:?} th={} batch={:?} lazy={:?}",toks,th,batch,lazy)); }
            // hints
            for (i,tk) in toks.iter().enumerate() {
                if tk.nan { stats[1]+=1; if batch.iter().any(|o|o.start<=i && i<o.end) { fail("c15-nan-inside",format!("{:?} th={} i={} batch={:?}",toks,th,i,batch)); } }
                if tk.sep && i>0 { if batch.iter().any(|o|o.start<=i-1 && i<o.end) { fail("c15-sep-inside",format!("{:?} th={} i={} batch={:?}",toks,th,i,batch)); } }
            }
            // sep == comma inserted
            let mut t2:Vec<Tk>=vec![]; let mut map=vec![]; // map new idx -> old idx
            for (i,tk) in toks.iter().enumerate() { if tk.sep && i>0 { t2.push(Tk{text:",".into(),lower:",".into(),sep:false,nan:false}); map.push(usize::MAX); stats[2]+=1; } let mut c=tk.clone(); c.sep=false; t2.push(c); map.push(i); }
            let b2=occs(find_numbers(t2.iter(),&lg,th));
            let mapped:Vec<Occ>=b2.iter().map(|o|Occ{start:map[o.start],end:map[o.end-1]+1,text:o.text.clone(),value:o.value,ord:o.ord}).collect();
            if mapped!=batch { fail("c15-sep-vs-comma",format!("{:?} th={} hinted={:?} comma={:?}",toks.iter().map(|t|format!("{}{}{}",if t.sep{"|"}else{""},t.text,if t.nan{"*"}else{""})).collect::<Vec<_>>(),th,batch,mapped)); }
        }
        println!("== {l} stats lookahead-checked={} nan-tokens={} sep-commas={}",stats[0],stats[1],stats[2]);
        for (k,(cnt,ex)) in &fails { println!("  [{k}] x{cnt}"); for e in ex { let e:String=e.chars().take(420).collect(); println!("      {e}"); } }
    }
}
