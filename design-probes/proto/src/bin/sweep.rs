use proto::choose::*; use proto::spell;
use text2num::*;
use std::collections::BTreeMap;
fn lang(c:&str)->Language{ match c {"pt"=>Language::portuguese(), c=>get_interpreter_for(c).unwrap()} }
fn main(){
    std::panic::set_hook(Box::new(|_|{}));
    let a:Vec<String>=std::env::args().collect();
    let langs: Vec<&str> = if a.len()>1 && a[1]!="all" { vec![a[1].as_str()] } else { spell::LANGS.to_vec() };
    let upto: u64 = a.get(2).map(|x|x.parse().unwrap()).unwrap_or(20000);
    let rnd: u64 = a.get(3).map(|x|x.parse().unwrap()).unwrap_or(200000);
    for l in langs {
        let lg=lang(l);
        let mut fails: BTreeMap<String,(u64,Vec<String>)> = BTreeMap::new();
        let mut total=0u64; let mut bad=0u64;
        let mut check=|n:u64, words:Vec<String>, tag:&str| {
            total+=1;
            let text=words.join(" ");
            let want=n.to_string();
            let got=std::panic::catch_unwind(||text2digits(&text,&lg)).map(|r|r.map_err(|e|format!("{:?}",e))).unwrap_or(Err("PANIC".into()));
            let sent=format!("abc {} xyz.", text);
            let rep=replace_numbers_in_text(&sent,&lg,0.0);
            let ok1 = got.as_deref()==Ok(want.as_str());
            let ok2 = rep==format!("abc {} xyz.", want);
            if !(ok1&&ok2) { bad+=1;
                let sig=format!("{} t2d={} rep={}", tag, if ok1{"ok"}else{"BAD"}, if ok2{"ok"}else{"BAD"});
                let e=fails.entry(sig).or_insert((0,vec![])); e.0+=1; if e.1.len()<12 { e.1.push(format!("{} {:?} -> {:?} / {:?}", n, text, got, rep)); } }
        };
        for n in 0..upto { check(n, spell::cardinal(l,n,&mut Canon), "canon"); }
        let mut r=Rng(0x9E3779B97F4A7C15);
        for i in 0..rnd {
            // structured n
            let pool:[u32;24]=[0,0,0,1,1,2,3,8,10,11,16,20,21,28,71,80,81,91,99,100,101,200,180,999];
            let mut n:u64=0; for _ in 0..4 { let g = if r.next()%3==0 { (r.next()%1000) as u32 } else { pool[(r.next()%24) as usize] }; n=n*1000+g as u64; }
            if i%4==0 { n = r.next()%1_000_000_000_000; } if i%4==1 { n = r.next() % 100000; }
            let w=spell::cardinal(l,n,&mut r);
            check(n,w,"var");
        }
        println!("== {l}: total {total} bad {bad}");
        for (k,(cnt,ex)) in &fails { println!("  [{k}] x{cnt}"); for e in ex { println!("      {e}"); } }
    }
}
