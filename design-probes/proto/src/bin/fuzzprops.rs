use proto::choose::*; use proto::spell::{self, vocab::*};
use text2num::*; use text2num::verif_hooks::{tokenize, BasicToken};
use std::collections::BTreeMap;
fn lang(c:&str)->Language{ get_interpreter_for(c).unwrap() }

#[derive(Clone,Debug,PartialEq)]
struct Occ{start:usize,end:usize,text:String,value:u64,ord:bool}
fn occs(v:Vec<Occurence>)->Vec<Occ>{ v.into_iter().map(|o|Occ{start:o.start,end:o.end,text:o.text,value:o.value.to_bits(),ord:o.is_ordinal}).collect() }
fn scan(text:&str, lg:&Language, th:f64)->(Vec<BasicToken>,Vec<Occ>){
    let mut t:Vec<BasicToken>=tokenize(text).collect(); lg.basic_annotate(&mut t);
    let o=occs(find_numbers(t.iter(),lg,th)); (t,o)
}
fn splice(t:&[BasicToken], o:&[Occ])->String{ let mut s=String::new(); let mut i=0; for oc in o { while i<oc.start { s.push_str(&t[i].text); i+=1; } s.push_str(&oc.text); i=oc.end; } while i<t.len(){ s.push_str(&t[i].text); i+=1;} s }

fn gen_text(v:&Vocab, r:&mut Rng, maxlen:usize, clean:bool)->String{
    let n=1+(r.next() as usize)%maxlen; let mut s=String::new();
    if r.next()%8==0 { s.push_str(SPACES[(r.next()%8) as usize]); }
    for i in 0..n {
        let k=r.next()%100;
        let w:String = if k<50 { let c=&v.classes[(r.next() as usize)%v.classes.len()]; c[(r.next() as usize)%c.len()].clone() } else if k<62 { v.number_words[(r.next() as usize)%v.number_words.len()].clone() }
            else if k<72 { v.linking[(r.next() as usize)%v.linking.len()].to_string() }
            else if k<84 { v.fillers[(r.next() as usize)%v.fillers.len()].to_string() }
            else if k<88 { v.conj.to_string() } else if k<92 { v.sep.to_string() }
            else { PUNCT[(r.next() as usize)%PUNCT.len()].to_string() };
        let w = match r.next()%12 { 0=>w.to_uppercase(), 1=>{ let mut c=w.chars(); match c.next(){Some(f)=>f.to_uppercase().collect::<String>()+c.as_str(),None=>w} }, _=>w };
        s.push_str(&w);
        if i+1<n { match r.next()%14 { 0=>{ s.push_str(PUNCT[(r.next() as usize)%PUNCT.len()]); s.push(' '); }, 1 if !clean=>{s.push('-');}, 2 if !clean=>{} , _=>s.push_str(SPACES[(r.next()%8) as usize]) } }
    }
    if r.next()%6==0 { s.push_str(PUNCT[(r.next() as usize)%PUNCT.len()]); }
    s
}
fn main(){ std::panic::set_hook(Box::new(|_|{}));
    
    let a:Vec<String>=std::env::args().collect();
    let langs: Vec<&str> = if a.len()>1 && a[1]!="all" { vec![a[1].as_str()] } else { spell::LANGS.to_vec() };
    let iters: u64 = a.get(2).map(|x|x.parse().unwrap()).unwrap_or(100000);
    let which: String = a.get(3).cloned().unwrap_or("all".into()); let clean = a.get(4).is_some();
    for l in langs {
        let lg=lang(l); let v=vocab(l);
        let mut r=Rng(0xABCDEF12345 ^ (l.as_bytes()[0] as u64)<<32);
        let mut fails: BTreeMap<String,(u64,Vec<String>)> = BTreeMap::new();
        let mut fail=|k:&str, ex:String| { let e=fails.entry(k.to_string()).or_insert((0,vec![])); e.0+=1; if e.1.len()<10 { e.1.push(ex); } };
        let ths=[0.0,3.0,10.0,100.0,f64::NAN,f64::INFINITY,-1.0];
        for _ in 0..iters {
            let text=gen_text(&v,&mut r,9,clean);
            let th=ths[(r.next()%7) as usize];
            let res=std::panic::catch_unwind(||{
            let (t,o)=scan(&text,&lg,th);
            let mut out:Vec<(String,String)>=vec![];
            // C02
            if which=="all"||which=="c02" {
                let cat:String=t.iter().map(|x|x.text.as_str()).collect(); if cat!=text { out.push(("c02-lossless".into(),format!("{:?}",text))); }
                let rep=replace_numbers_in_text(&text,&lg,th); let sp=splice(&t,&o);
                if rep!=sp { out.push(("c02-splice".into(),format!("{:?} th={} rep={:?} splice={:?}",text,th,rep,sp))); }
            }
            // C06
            if which=="all"||which=="c06" {
                let mut prev=0usize;
                for oc in &o {
                    let val=f64::from_bits(oc.value);
                    let mut why=vec![];
                    if !(oc.start<oc.end && oc.end<=t.len() && oc.start>=prev) { why.push("span"); }
                    prev=oc.end;
                    let isw=|x:&BasicToken| x.text.chars().next().map_or(false,|c|c.is_alphanumeric());
                    if oc.end<=t.len() && oc.start<oc.end && !(isw(&t[oc.start])&&isw(&t[oc.end-1])) { why.push("edge-not-word"); }
                    // numeral shape
                    let tx=&oc.text; let dl=tx.chars().take_while(|c|c.is_ascii_digit()).count();
                    let rest=&tx[dl..];
                    let mark=spell::decimal_mark(l);
                    let (shape_ok, has_marker, read) = if tx.starts_with("1/") && l=="es" { let d=&tx[2..]; (d.chars().all(|c|c.is_ascii_digit())&&!d.is_empty(), false, d.parse::<f64>().map(|x|1.0/x).unwrap_or(f64::NAN)) }
                        else if dl==0 { (false,false,f64::NAN) }
                        else if rest.is_empty() { (true,false,tx.parse::<f64>().unwrap()) }
                        else if rest.starts_with(mark) { let fr=&rest[mark.len_utf8()..]; let fl=fr.chars().take_while(|c|c.is_ascii_digit()).count(); (fl>0 && fl==fr.len(), false, format!("{}.{}",&tx[..dl],&fr[..fl]).parse::<f64>().unwrap_or(f64::NAN)) }
                        else { (rest.chars().all(|c|!c.is_ascii_digit() && !c.is_whitespace()), true, tx[..dl].parse::<f64>().unwrap()) };
                    if !shape_ok { why.push("shape"); }
                    if !(read==val) { why.push("value"); }
                    if has_marker!=oc.ord { why.push("ordflag"); }
                    if !why.is_empty() { out.push((format!("c06-{}",why.join("+")),format!("{:?} th={} occ={:?}",text,th,oc))); }
                }
            }
            // C07a: span words validate to same text (non decimal)
            if which=="all"||which=="c07" {
                let mark=spell::decimal_mark(l);
                for oc in &o { if oc.text.contains(mark) && !oc.ord { continue; }
                    let words:Vec<&str>=t[oc.start..oc.end].iter().filter(|x|x.text.chars().next().map_or(false,|c|c.is_alphanumeric())).map(|x|x.text.as_str()).collect();
                    let phrase=words.join(" ");
                    let v=text2digits(&phrase,&lg);
                    if v.as_deref().ok()!=Some(oc.text.as_str()) { out.push(("c07a".into(),format!("{:?} th={} occ={:?} phrase={:?} validate={:?}",text,th,oc,phrase,v))); }
                }
                // C07c at threshold 0: uncovered word tokens that validate alone
                if th==0.0 { let mut cov=vec![false;t.len()]; for oc in &o { for k in oc.start..oc.end { cov[k]=true; } }
                    for (k,x) in t.iter().enumerate() { if !cov[k] && !x.nan && x.text.chars().next().map_or(false,|c|c.is_alphanumeric()) { if let Ok(d)=text2digits(&x.text,&lg) { out.push(("c07c".into(),format!("{:?} word {:?} validates to {} but not covered; occ={:?}",text,x.text,d,o))); } } } }
            }
            // C07b: validator accepts => scanner sees exactly one number with same digits (on the word sequence alone)
            if which=="all"||which=="c07b" {
                let words:Vec<&str>=t.iter().filter(|x|x.text.chars().next().map_or(false,|c|c.is_alphanumeric())).map(|x|x.text.as_str()).collect();
                for len in 1..=words.len().min(5) { for st in 0..=(words.len()-len) {
                    let phrase=words[st..st+len].join(" ");
                    if let Ok(d)=text2digits(&phrase,&lg) {
                        let tk:Vec<BasicToken>=tokenize(&phrase).collect();
                        let oo=occs(find_numbers(tk.iter(),&lg,0.0));
                        if !(oo.len()==1 && oo[0].text==d) { out.push(("c07b".into(),format!("{:?} validates to {:?} but scan={:?}",phrase,d,oo))); }
                    }
                }}
            }
            // C09e: lone-number policy model
            if which=="all"||which=="c09" {
                let (_,o0)=scan(&text,&lg,0.0);
                let sepw=spell::decimal_sep(l); let cj=spell::conjunction(l);
                // gap classification between consecutive occ in o0: Some(true)=contiguous, Some(false)=broken, None=undecided
                let gap=|a:usize,b:usize|->Option<bool>{ let mut und=false; for x in &t[a..b] { let tx=x.text.as_str(); let lo=x.lowercase.as_str();
                        if tx=="-" || tx.chars().all(char::is_whitespace) { continue; }
                        if lo==sepw || lo==cj || lo=="ën" { und=true; continue; }
                        if lg.is_linking(lo) { continue; }
                        if tx.chars().all(|c|!c.is_alphabetic()) && tx.trim()!="." { continue; }
                        return Some(false); }
                    if und {None} else {Some(true)} };
                for (i,oc) in o0.iter().enumerate() {
                    let small=(oc.text.len()==1 || oc.ord) && f64::from_bits(oc.value)<th;
                    if !small { continue; }
                    let prev = if i>0 && o0[i-1].ord==oc.ord { gap(o0[i-1].end,oc.start) } else { Some(false) };
                    let next = if i+1<o0.len() && o0[i+1].ord==oc.ord { gap(oc.end,o0[i+1].start) } else { Some(false) };
                    let expect = match (prev,next) { (Some(true),_)|(_,Some(true))=>Some(true), (Some(false),Some(false))=>Some(false), _=>None };
                    if let Some(e)=expect { if o.contains(oc)!=e { out.push(("c09-policy".into(),format!("{:?} th={} occ={:?} expected_rewritten={} o0={:?} o={:?}",text,th,oc,e,o0,o))); } }
                }
            }
            // C18 (en only): 'o' == 'zero' next to a number word, ordinary word otherwise
            if l=="en" && (which=="all"||which=="c18") {
                let mut raw:Vec<BasicToken>=tokenize(&text).collect();
                let sig:Vec<usize>=(0..raw.len()).filter(|&i|!raw[i].text.chars().all(char::is_whitespace)).collect();
                let mut s2=String::new(); let mut any=false;
                let isnum=|x:&BasicToken| text2digits(&x.text,&lg).is_ok();
                let mut repl:Vec<Option<&str>>=vec![None;raw.len()];
                for (j,&i) in sig.iter().enumerate() { if raw[i].lowercase=="o" { any=true;
                    let z = (j>0 && isnum(&raw[sig[j-1]])) || (j+1<sig.len() && isnum(&raw[sig[j+1]]));
                    repl[i]=Some(if z {"zero"} else {"xq"}); } }
                if any { for (i,x) in raw.iter().enumerate() { s2.push_str(repl[i].unwrap_or(x.text.as_str())); }
                    let (t2,o2)=scan(&s2,&lg,th);
                    if t2.len()!=t.len() || o2!=o { out.push(("c18".into(),format!("{:?} vs {:?} th={} o={:?} o2={:?}",text,s2,th,o,o2))); } }
                raw.clear();
            }
            // C09: threshold subset + th<=0/NaN all
            if which=="all"||which=="c09" {
                let (_,o0)=scan(&text,&lg,0.0);
                for oc in &o { if !o0.contains(oc) { out.push(("c09-notsubset0".into(),format!("{:?} th={} occ={:?} o0={:?}",text,th,oc,o0))); } }
                if !(th>0.0) && o!=o0 { out.push(("c09-nonpos".into(),format!("{:?} th={} o={:?} o0={:?}",text,th,o,o0))); }
                // multi-digit cardinals and decimals always
                for oc in &o0 { let small=(oc.text.chars().count()==1 || oc.ord) && f64::from_bits(oc.value)<th; if !small && !o.contains(oc) { out.push(("c09-bigmissing".into(),format!("{:?} th={} missing {:?}",text,th,oc))); } }
            }
            // C11: case
            if which=="all"||which=="c11" {
                for variant in [text.to_uppercase(), text.to_lowercase()] {
                    if variant.to_lowercase()!=text.to_lowercase() { continue; }
                    let (t2,o2)=scan(&variant,&lg,th);
                    if t2.len()!=t.len() || o2!=o { out.push(("c11".into(),format!("{:?} vs {:?} th={} o={:?} o2={:?}",text,variant,th,o,o2))); }
                }
            }
            // C15: iter == batch
            if which=="all"||which=="c15" {
                let it=occs(find_numbers_iter(t.iter(),&lg,th).collect());
                if it!=o { out.push(("c15-iter".into(),format!("{:?} th={} batch={:?} iter={:?}",text,th,o,it))); }
            }
            // C17: whitespace substitution
            if which=="all"||which=="c17" {
                let mut r2=Rng(text.len() as u64*7919+13);
                let mut s2=String::new(); let mut inws=false;
                for c in text.chars() { if c.is_whitespace() { if !inws { s2.push_str(SPACES[(r2.next()%8) as usize]); if r2.next()%3==0 { s2.push_str(SPACES[(r2.next()%8) as usize]); } } inws=true; } else { inws=false; s2.push(c); } }
                let s2=format!("{}{}{}", if r2.next()%3==0 {"\u{2003}"} else {""}, s2, if r2.next()%3==0 {"\n"} else {""});
                let (_,o2)=scan(&s2,&lg,th);
                let a1:Vec<(String,u64,bool)>=o.iter().map(|x|(x.text.clone(),x.value,x.ord)).collect();
                let a2:Vec<(String,u64,bool)>=o2.iter().map(|x|(x.text.clone(),x.value,x.ord)).collect();
                if a1!=a2 { out.push(("c17-scan".into(),format!("{:?} vs {:?} th={} {:?} vs {:?}",text,s2,th,a1,a2))); }
                let v1=text2digits(&text,&lg).ok(); let v2=text2digits(&s2,&lg).ok();
                if v1!=v2 { out.push(("c17-validate".into(),format!("{:?} vs {:?}: {:?} vs {:?}",text,s2,v1,v2))); }
            }
            out });
            match res { Ok(list)=>for (k,e) in list { fail(&k,e); }, Err(_)=>fail("PANIC",format!("{:?} th={}",text,th)) }
        }
        println!("== {l}: iters {iters}");
        for (k,(cnt,ex)) in &fails { println!("  [{k}] x{cnt}"); for e in ex { let e:String=e.chars().take(360).collect(); println!("      {e}"); } }
    }
}
