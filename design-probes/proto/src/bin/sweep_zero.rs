use proto::choose::*; use proto::spell;
use text2num::*;
use std::collections::BTreeMap;
fn main(){
    std::panic::set_hook(Box::new(|_|{}));
    let a:Vec<String>=std::env::args().collect();
    let rnd: u64 = a.get(1).map(|x|x.parse().unwrap()).unwrap_or(100000);
    for l in spell::LANGS {
        let lg=get_interpreter_for(l).unwrap();
        let mut fails: BTreeMap<String,(u64,Vec<String>)> = BTreeMap::new();
        let mut r=Rng(0x77777);
        let pool:[u32;24]=[0,0,0,1,1,2,3,8,10,11,16,20,21,28,71,80,81,91,99,100,101,200,180,999];
        for i in 0..rnd {
            let mut n:u64=0; for _ in 0..3 { let g = if r.next()%3==0 { (r.next()%1000) as u32 } else { pool[(r.next()%24) as usize] }; n=n*1000+g as u64; }
            if i%3==0 { n=1+r.next()%2000; } if n==0 { n=1; }
            let k=(r.next()%7) as usize;
            let zw=spell::zero_word(l);
            let mut w:Vec<String>=(0..k).map(|_|zw.to_string()).collect();
            let canon = i%2==0;
            w.extend(if canon { spell::cardinal(l,n,&mut Canon) } else { spell::cardinal(l,n,&mut r) });
            let text=w.join(" "); let want=format!("{}{}","0".repeat(k),n);
            let got=text2digits(&text,&lg).map_err(|e|format!("{:?}",e));
            let rep=replace_numbers_in_text(&format!("abc {} xyz",text),&lg,0.0);
            if got.as_deref()!=Ok(want.as_str()) || rep!=format!("abc {} xyz",want) { let e=fails.entry(format!("lead k={}",k.min(2))).or_insert((0,vec![])); e.0+=1; if e.1.len()<8 { e.1.push(format!("{:?} want {} got {:?} / {:?}",text,want,got,rep)); } }
            // trailing zero
            let mut w2= if canon { spell::cardinal(l,n,&mut Canon) } else { spell::cardinal(l,n,&mut r) }; w2.push(zw.to_string());
            let t2=w2.join(" "); let rep2=replace_numbers_in_text(&t2,&lg,0.0);
            if rep2!=format!("{} 0",n) { let e=fails.entry("trail".into()).or_insert((0,vec![])); e.0+=1; if e.1.len()<8 { e.1.push(format!("{:?} -> {:?}",t2,rep2)); } }
        }
        println!("== {l}"); for (k,(cnt,ex)) in &fails { println!("  [{k}] x{cnt}"); for e in ex { let e:String=e.chars().take(300).collect(); println!("      {e}"); } }
    }
}
