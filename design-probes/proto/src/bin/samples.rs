use proto::choose::*; use proto::spell::{self, vocab::*};
use text2num::*;
fn main(){ let a:Vec<String>=std::env::args().collect(); let l=a[1].as_str(); let v=vocab(l); let lg=get_interpreter_for(l).unwrap(); let mut r=Rng(99);
 println!("{} number words: {:?}", v.number_words.len(), &v.number_words);
 let _=spell::LANGS;
 for _ in 0..15 { let n=1+(r.next()%9) as usize; let mut s=String::new(); for i in 0..n { if i>0 {s.push(' ');} let k=r.next()%100; if k<70 { s.push_str(&v.number_words[(r.next() as usize)%v.number_words.len()]); } else { s.push_str(v.fillers[(r.next() as usize)%v.fillers.len()]); } }
   println!("{:?} -> {:?}", s, replace_numbers_in_text(&s,&lg,0.0)); } }
