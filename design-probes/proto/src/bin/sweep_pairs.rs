use proto::choose::*; use proto::spell;
use text2num::*;
use std::collections::{BTreeMap,BTreeSet};
fn lang(c:&str)->Language{ match c {"pt"=>Language::portuguese(), c=>get_interpreter_for(c).unwrap()} }
struct Tok(String, String);
impl Token for &Tok { fn text(&self)->&str{&self.0} fn text_lowercase(&self)->&str{&self.1} }
fn main(){
    std::panic::set_hook(Box::new(|_|{}));
    let a:Vec<String>=std::env::args().collect();
    let langs: Vec<&str> = if a.len()>1 && a[1]!="all" { vec![a[1].as_str()] } else { spell::LANGS.to_vec() };
    for l in langs {
        let lg=lang(l);
        let cj=spell::conjunction(l);
        let normw=|w:&str|->String{ match (l,w) { ("fr","vingts")=>"vingt".into(), ("fr","cents")=>"cent".into(), _=>w.to_string() } };
        let norm=|t:&str, strip:bool|->String{ t.replace('-'," ").split(' ').filter(|w|!w.is_empty() && !(strip && *w==cj)).map(|w|normw(w)).collect::<Vec<_>>().join(" ") };
        let mut rev: BTreeMap<String,BTreeSet<u64>> = BTreeMap::new();
        let mut rev_nc: BTreeMap<String,BTreeSet<u64>> = BTreeMap::new();
        for n in 0..1000u64 { for v in spell::all_variants(l,n) { rev_nc.entry(norm(&v,true)).or_default().insert(n); rev.entry(norm(&v,false)).or_default().insert(n); } }
        let (mut total,mut literal,mut seg_ok,mut bad)=(0u64,0u64,0u64,0u64);
        let mut ex_bad: BTreeMap<String,Vec<String>> = BTreeMap::new();
        let mut ex_seg: Vec<String>=vec![];
        let mut r=Rng(0x1234567);
        for a in 1..100u64 { for b in 0..100u64 { for conj in [false,true] { for rep in 0..3 {
            let (wa,wb) = if rep==0 { (spell::cardinal(l,a,&mut Canon),spell::cardinal(l,b,&mut Canon)) } else { (spell::cardinal(l,a,&mut r),spell::cardinal(l,b,&mut r)) };
            let mut w=wa.clone(); if conj { w.push(cj.into()); } w.extend(wb.clone());
            let text=w.join(" ");
            total+=1;
            let out=replace_numbers_in_text(&text,&lg,0.0);
            // tokens: words at even idx, spaces at odd
            let mut toks=vec![]; for (i,x) in w.iter().enumerate(){ if i>0 { toks.push(Tok(" ".into()," ".into())); } toks.push(Tok(x.clone(),x.to_lowercase())); }
            let occ=find_numbers(toks.iter(),&lg,0.0);
            // segmentation oracle
            let mut covered=vec![false;w.len()]; let mut why=String::new();
            for o in &occ {
                if o.start%2!=0 || o.end%2!=1 { why=format!("span not on words {:?}",o); break; }
                let ws=&w[o.start/2..=(o.end-1)/2];
                for k in o.start/2..=(o.end-1)/2 { covered[k]=true; }
                let phrase=ws.join(" ");
                let digits=o.text.trim_start_matches('0'); let c:u64= if digits.is_empty(){0}else{ match digits.parse(){Ok(c)=>c,Err(_)=>{why=format!("non numeric {:?}",o); break;}} };
                let zeros=o.text.len()-digits.len();
                // leading zero words
                let zw=spell::zero_word(l);
                let lead=ws.iter().take_while(|x|x.as_str()==zw).count();
                let (nz, rest) = if c==0 { (zeros.saturating_sub(1), ws[ws.len().min(lead.saturating_sub(0))..].to_vec()) } else { (zeros, ws[lead.min(ws.len())..].to_vec()) };
                let _=nz;
                if c==0 { if !(lead==ws.len() && o.text.len()==lead) { why=format!("zero run mismatch {:?} {:?}",phrase,o.text); break; } continue; }
                if lead!=zeros { why=format!("leading zeros mismatch {:?} {:?}",phrase,o.text); break; }
                let rp=rest.join(" ");
                let has_c = rest.iter().any(|x|x==cj) || rp.contains(&format!("-{}-",cj));
                let ok = rev.get(&norm(&rp,false)).map_or(false,|s|s.contains(&c)) || (has_c && rev_nc.get(&norm(&rp,true)).map_or(false,|s|s.contains(&c)));
                if !ok { why=format!("{:?} read as {}",rp,o.text); break; }
            }
            if why.is_empty() { for (k,x) in w.iter().enumerate() { if !covered[k] && x!=cj { why=format!("word {:?} left out",x); break; } } }
            if !why.is_empty() { bad+=1; let key=why.split(' ').next().unwrap().to_string(); let e=ex_bad.entry("bad".into()).or_default(); let _=key; if e.len()<80 { e.push(format!("{:?} -> {:?}   ({})", text, out, why)); } continue; }
            let sep = if conj { format!(" {} ",cj) } else { " ".into() };
            if out==format!("{}{}{}",a,sep,b) || out.parse::<u64>().is_ok() { literal+=1; } else { seg_ok+=1; if ex_seg.len()<25 { ex_seg.push(format!("{:?} -> {:?}",text,out)); } }
        }}}}
        println!("== {l}: total {total} literal(both|single) {literal} other-valid-segmentation {seg_ok} bad {bad}");
        for (k,ex) in &ex_bad { println!("  [{k}]"); for e in ex { println!("      {e}"); } }
        println!("  [other valid segmentations]"); for e in &ex_seg { println!("      {e}"); }
    }
}
