use proto::choose::*; use proto::spell::{self, vocab::*};
use text2num::*; use text2num::verif_hooks::{tokenize, BasicToken};
use std::collections::BTreeMap;
fn main(){
    std::panic::set_hook(Box::new(|_|{}));
    let a:Vec<String>=std::env::args().collect();
    let iters: u64 = a.get(1).map(|x|x.parse().unwrap()).unwrap_or(200000);
    let mut fails: BTreeMap<String,(u64,Vec<String>)> = BTreeMap::new();
    for l in spell::LANGS {
        let lg=get_interpreter_for(l).unwrap(); let v=vocab(l);
        let mut r=Rng(0x5151 ^ (l.as_bytes()[1] as u64)<<20);
        let specials=["","-","--","'","-'", " ", "\u{a0}", "\u{301}", "é", "e\u{301}", "ß", "İ", "ǆ", "١", "٣", "²", "½", "Ⅷ", "5", "12", "ﬁ", "\u{200b}", "\u{feff}", "𝟓", "日本", "\0", "\r\n", "o", "O", "-o-", "st", "th", "s", "es", "os", "as", "a", "e", "i", "te", "de", "ste", "ème", "esimo", "avo","mila","cento","und","en","ën","hundert","honderd"];
        for _ in 0..iters {
            let n=(r.next()%7) as usize; let mut s=String::new();
            for _ in 0..n { match r.next()%10 { 0..=3=>s.push_str(&v.number_words[(r.next() as usize)%v.number_words.len()]), 4|5=>s.push_str(specials[(r.next() as usize)%specials.len()]), 6=>{ if let Some(c)=char::from_u32((r.next()%0x3000) as u32){s.push(c)} }, 7=>s.push_str(PUNCT[(r.next() as usize)%PUNCT.len()]), 8=>{ // mangle: truncate a number word at random char
                    let w=&v.number_words[(r.next() as usize)%v.number_words.len()]; let cs:Vec<char>=w.chars().collect(); let k=(r.next() as usize)%(cs.len()+1); s.extend(cs[..k].iter()); let w2=&v.number_words[(r.next() as usize)%v.number_words.len()]; s.push_str(w2); },
                  _=>s.push(' ') } if r.next()%3==0 { s.push(' '); } }
            let th=[0.0,10.0,f64::NAN,f64::INFINITY,f64::NEG_INFINITY][(r.next()%5) as usize];
            let res=std::panic::catch_unwind(||{
                let _=text2digits(&s,&lg); let _=replace_numbers_in_text(&s,&lg,th);
                let mut t:Vec<BasicToken>=tokenize(&s).collect(); lg.basic_annotate(&mut t);
                let _=find_numbers(t.iter(),&lg,th); let _:Vec<_>=find_numbers_iter(t.iter(),&lg,th).collect();
                let _=replace_numbers_in_stream(t,&lg,th);
            });
            if res.is_err() { let e=fails.entry(format!("PANIC {l}")).or_insert((0,vec![])); e.0+=1; if e.1.len()<12 { e.1.push(format!("{:?} th={}",s,th)); } }
        }
    }
    for (k,(cnt,ex)) in &fails { println!("  [{k}] x{cnt}"); for e in ex { println!("      {e}"); } }
    println!("done");
}
