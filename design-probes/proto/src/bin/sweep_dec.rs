use proto::choose::*; use proto::spell;
use text2num::*;
use std::collections::BTreeMap;
fn lang(c:&str)->Language{ match c {"pt"=>Language::portuguese(), c=>get_interpreter_for(c).unwrap()} }
fn main(){
    std::panic::set_hook(Box::new(|_|{}));
    let a:Vec<String>=std::env::args().collect();
    let langs: Vec<&str> = if a.len()>1 && a[1]!="all" { vec![a[1].as_str()] } else { spell::LANGS.to_vec() };
    let rnd: u64 = a.get(2).map(|x|x.parse().unwrap()).unwrap_or(100000);
    for l in langs {
        let lg=lang(l);
        let mut fails: BTreeMap<String,(u64,Vec<String>)> = BTreeMap::new();
        let (mut total,mut bad)=(0u64,0u64);
        let mut r=Rng(0x9E3779B97F4A7C15);
        for i in 0..rnd {
            let n = match i%3 {0=> r.next()%1_000_000_000, 1=> r.next()%1000, _=> r.next()%20 };
            let len = 1 + (r.next()%6) as usize;
            let mut d=String::new(); for j in 0..len { let z = r.next()%3==0 || (j==0 && r.next()%2==0); d.push(if z {'0'} else { char::from(b'0'+(r.next()%10) as u8) }); }
            let mut w = spell::cardinal(l,n,&mut r);
            w.push(spell::decimal_sep(l).to_string());
            w.extend(spell::fraction(l,&d,&mut r));
            let text=w.join(" ");
            let want=format!("{}{}{}",n,spell::decimal_mark(l),d);
            let wantv:f64=format!("{}.{}",n,d).parse().unwrap();
            total+=1;
            let sent=format!("abc {} xyz.", text);
            let rep=replace_numbers_in_text(&sent,&lg,10.0);
            let ok = rep==format!("abc {} xyz.", want);
            let _=wantv;
            if !ok { bad+=1; let sig=format!("len{} ", d.len());
                let e=fails.entry(sig).or_insert((0,vec![])); e.0+=1; if e.1.len()<8 { e.1.push(format!("{:?} want {} -> {:?}", text, want, rep)); } }
        }
        println!("== {l}: total {total} bad {bad}");
        for (k,(cnt,ex)) in &fails { println!("  [{k}] x{cnt}"); for e in ex { println!("      {e}"); } }
    }
}
