pub mod choose;
pub mod spell;
