#![no_main]
//! libFuzzer target for the text-level "any input" properties. The oracle of the property selected
//! by T2N_FUZZ_PROP (C02 | C03 | C06 | C07; default C03) runs inside the target.
use libfuzzer_sys::fuzz_target;
use std::sync::OnceLock;
use t2n_verif::engine::{Obs, Property};
use t2n_verif::fuzzdec::decode_text;
use t2n_verif::props::{c02, c03, c06, c07};

fn which() -> &'static str {
    static W: OnceLock<String> = OnceLock::new();
    W.get_or_init(|| std::env::var("T2N_FUZZ_PROP").unwrap_or_else(|_| "C03".into()))
}

fuzz_target!(|data: &[u8]| {
    let t = decode_text(data);
    let mut obs = Obs::new();
    obs.active = false;
    let r = match which() {
        "C02" => c02::C02.check(&c02::Case { lang: t.lang.into(), text: t.text.clone(), th_bits: t.th_bits, hints: t.hints.clone(), numberless: false }, &mut obs),
        "C06" => c06::C06.check(&c06::Case { lang: t.lang.into(), text: t.text.clone(), th_bits: t.th_bits, hints: t.hints.clone() }, &mut obs),
        "C07" => c07::C07.check(&c07::Case { lang: t.lang.into(), text: t.text.clone(), th_bits: t.th_bits, hints: t.hints.clone() }, &mut obs),
        _ => c03::C03.check(&c03::Case { lang: t.lang.into(), text: t.text.clone(), repeat: 1, th_bits: t.th_bits }, &mut obs),
    };
    if let Err(m) = r {
        panic!("T2N-VIOLATION {} lang={} th_bits={} text={:?}: {}", which(), t.lang, t.th_bits, t.text, m);
    }
});
