#![no_main]
//! libFuzzer target for C12: decoded operation list vs the reference model of the digit builder.
use libfuzzer_sys::fuzz_target;
use t2n_verif::engine::{Obs, Property};
use t2n_verif::fuzzdec::decode_ops;
use t2n_verif::props::c12;

fuzz_target!(|data: &[u8]| {
    let ops = decode_ops(data);
    if ops.is_empty() {
        return;
    }
    let mut obs = Obs::new();
    obs.active = false;
    if let Err(m) = c12::C12.check(&ops, &mut obs) {
        panic!("T2N-VIOLATION C12 ops={:?}: {}", ops, m);
    }
});
