//! t2n-verif library: reference spellers and models, generators, oracles (one module per property)
//! and the sharded proptest engine. Used by the `t2n-verif` binary and by the cargo-fuzz targets in /verif/fuzz.
pub mod choose;
pub mod engine;
pub mod fuzzdec;
pub mod gen;
pub mod model;
pub mod props;
pub mod spell;
pub mod util;

include!(concat!(env!("OUT_DIR"), "/srcdict.rs"));
