//! proptest strategies: structured integers, variant choice bytes, thresholds, tagged sentences.
use crate::choose::Bytes;
use crate::spell::{self, vocab::*};
use crate::util::LANGS;
use proptest::prelude::*;
use serde::{Deserialize, Serialize};
use std::sync::OnceLock;

pub fn vocab_of(lang: &str) -> &'static Vocab {
    static V: OnceLock<Vec<Vocab>> = OnceLock::new();
    &V.get_or_init(|| {
        LANGS
            .iter()
            .map(|l| {
                let mut v = vocab(l);
                // everyday words, minus anything this tree's library treats as a number or a linking word
                let lg = crate::util::lang(l);
                for w in common_words_raw(l) {
                    let lo = w.to_lowercase();
                    let is_num = text2num::text2digits(w, lg).is_ok();
                    let is_link = text2num::LangInterpreter::is_linking(lg, &lo);
                    let known = v.number_words.iter().any(|x| x.to_lowercase() == lo) || v.linking.contains(&lo.as_str()) || lo == v.conj || lo == v.sep || v.conj_alts.contains(&lo.as_str()) || v.zeros.contains(&lo.as_str());
                    if !is_num && !is_link && !known && !v.fillers.contains(&w) {
                        v.fillers.push(w);
                        v.common.push(w);
                    }
                }
                // fuzzing dictionary harvested from the tree under test (build.rs): single-word string literals of
                // src/lang/<code>/*.rs that this tree's library treats as ordinary words
                for w in crate::SRC_DICT.iter().find(|(c, _)| c == l).map(|(_, ws)| *ws).unwrap_or(&[]) {
                    let lo = w.to_lowercase();
                    // a literal on which the tree's interpreter panics is admitted as it is: the checks (which contain
                    // panics and report them) must meet it, the vocabulary set-up must not die on it
                    let probe_ok = std::panic::catch_unwind(|| {
                        let mut b = text2num::digit_string::DigitString::new();
                        let _ = text2num::LangInterpreter::apply(lg, &lo, &mut b);
                        let _ = text2num::LangInterpreter::apply_decimal(lg, &lo, &mut b);
                        let _ = text2num::text2digits(&lo, lg);
                        let _ = text2num::LangInterpreter::is_linking(lg, &lo);
                        let _ = text2num::LangInterpreter::is_decimal_sep(lg, &lo);
                    })
                    .is_ok();
                    if !probe_ok {
                        let leaked: &'static str = Box::leak(lo.clone().into_boxed_str());
                        v.fillers.push(leaked);
                        v.common.push(leaked);
                        v.srcdict.push(leaked);
                        continue;
                    }
                    // unknown to the interpreter in every builder state we can put it in (a bare scale word like
                    // `mila` is rejected on an empty builder only)
                    let unknown = ["", "1", "2", "7", "20", "100", "1000", "2000000"].iter().all(|pre| {
                        let mut probe = text2num::digit_string::DigitString::new();
                        if !pre.is_empty() {
                            let _ = probe.put(pre.as_bytes());
                        }
                        matches!(text2num::LangInterpreter::apply(lg, &lo, &mut probe), Err(text2num::error::Error::NaN))
                            && matches!(text2num::LangInterpreter::apply_decimal(lg, &lo, &mut probe), Err(text2num::error::Error::NaN))
                    });
                    let is_num = text2num::text2digits(w, lg).is_ok();
                    let is_link = text2num::LangInterpreter::is_linking(lg, &lo);
                    let is_sep = text2num::LangInterpreter::is_decimal_sep(lg, &lo);
                    let known = v.number_words.iter().any(|x| x.to_lowercase() == lo) || v.linking.contains(&lo.as_str()) || lo == v.conj || lo == v.sep || v.conj_alts.contains(&lo.as_str()) || v.zeros.contains(&lo.as_str());
                    if unknown && !is_num && !is_link && !is_sep && !known && !v.fillers.iter().any(|f| f.to_lowercase() == lo) {
                        let leaked: &'static str = Box::leak(lo.clone().into_boxed_str());
                        v.fillers.push(leaked);
                        v.common.push(leaked);
                        v.srcdict.push(leaked);
                    }
                }
                // multi-word expressions harvested from the same source files: kept when no component is a number
                // word for this tree (components may be linking words)
                let not_number = |lo: &str| {
                    ["", "1", "2", "7", "20", "100", "1000", "2000000"].iter().all(|pre| {
                        let mut probe = text2num::digit_string::DigitString::new();
                        if !pre.is_empty() {
                            let _ = probe.put(pre.as_bytes());
                        }
                        matches!(text2num::LangInterpreter::apply(lg, lo, &mut probe), Err(text2num::error::Error::NaN)) && matches!(text2num::LangInterpreter::apply_decimal(lg, lo, &mut probe), Err(text2num::error::Error::NaN))
                    }) && text2num::text2digits(lo, lg).is_err()
                        && !text2num::LangInterpreter::is_decimal_sep(lg, lo)
                        && !v.number_words.iter().any(|x| x.to_lowercase() == lo)
                        && lo != v.conj
                        && lo != v.sep
                        && !v.zeros.contains(&lo)
                };
                for ph in crate::SRC_PHRASES.iter().find(|(c, _)| c == l).map(|(_, ws)| *ws).unwrap_or(&[]) {
                    let parts: Vec<&str> = ph.split(' ').collect();
                    if std::panic::catch_unwind(std::panic::AssertUnwindSafe(|| parts.iter().all(|w| not_number(w)) && text2num::text2digits(ph, lg).is_err())).unwrap_or(true) {
                        v.phrases.push(parts.iter().map(|w| -> &'static str { Box::leak(w.to_string().into_boxed_str()) }).collect());
                    }
                }
                v
            })
            .collect()
    })[crate::util::lang_index(lang)]
}

/// monotone index mapping (never `%`, so shrinking an index shrinks the choice)
pub fn idx(i: u16, len: usize) -> usize {
    if len == 0 {
        0
    } else {
        (i as usize * len) >> 16
    }
}

pub const POOL: [u32; 21] = [0, 1, 2, 3, 8, 10, 11, 16, 20, 21, 28, 71, 80, 81, 91, 99, 100, 101, 180, 200, 999];

fn group_strategy() -> impl Strategy<Value = u32> {
    prop_oneof![
        3 => (0usize..POOL.len()).prop_map(|i| POOL[i]),
        3 => 0u32..1000,
        2 => Just(0u32),
    ]
}
/// structured integers below `max` (max <= 10^12): boundary-shaped 3-digit groups mixed with uniform draws
pub fn num_strategy(max: u64) -> BoxedStrategy<u64> {
    prop_oneof![
        4 => (group_strategy(), group_strategy(), group_strategy(), group_strategy())
            .prop_map(|(a, b, c, d)| a as u64 + 1000 * b as u64 + 1_000_000 * c as u64 + 1_000_000_000 * d as u64),
        1 => 0u64..1_000_000_000_000,
        2 => 0u64..100_000,
        2 => 0u64..1000,
        1 => (0usize..POOL.len(), 0u32..4).prop_map(|(i, k)| POOL[i] as u64 * 1000u64.pow(k)),
    ]
    .prop_map(move |n| n % max)
    .boxed()
}
/// variant choice bytes: zeros = canonical spelling
pub fn choices() -> BoxedStrategy<Vec<u8>> {
    prop_oneof![
        1 => Just(vec![]),
        3 => proptest::collection::vec(any::<u8>(), 0..24),
    ]
    .boxed()
}
pub fn lang_strategy() -> BoxedStrategy<String> {
    (0usize..7).prop_map(|i| LANGS[i].to_string()).boxed()
}
pub const THRESHOLDS: [f64; 20] = [
    2.5,
    9.5,
    9.999,
    10.000001,
    -0.0,
    1000.0,
    0.0,
    10.0,
    3.0,
    100.0,
    f64::INFINITY,
    f64::NAN,
    -1.0,
    f64::NEG_INFINITY,
    7.0,
    1.0,
    2.0,
    1e300,
    5e-324,
    0.5,
];
/// threshold as f64 bits (JSON cannot carry NaN/inf)
pub fn threshold_strategy() -> BoxedStrategy<u64> {
    prop_oneof![
        6 => (0usize..THRESHOLDS.len()).prop_map(|i| THRESHOLDS[i].to_bits()),
        2 => (0u32..40).prop_map(|v| (v as f64).to_bits()),
        1 => any::<f64>().prop_map(|v| v.to_bits()),
    ]
    .boxed()
}

#[derive(Clone, Copy, Debug, PartialEq, Eq, Hash, Serialize, Deserialize)]
pub enum Class {
    /// a number word or a word of a spelled number
    Num,
    Ord,
    Zero,
    Conj,
    Sep,
    Link,
    Filler,
    Punct,
    Raw,
    /// a token made of ASCII digits only (already a numeral; not a number word, not alphabetic)
    Digits,
}
#[derive(Clone, Debug, PartialEq, Eq, Hash, Serialize, Deserialize)]
pub struct Item {
    pub text: String,
    pub class: Class,
    /// what follows this item in the text (whitespace, or glue in dirty mode)
    pub join: String,
}
#[derive(Clone, Debug, PartialEq, Eq, Hash, Serialize, Deserialize)]
pub struct Sentence {
    pub lead: String,
    pub items: Vec<Item>,
}
impl Sentence {
    pub fn render(&self) -> String {
        let mut s = self.lead.clone();
        for it in &self.items {
            s.push_str(&it.text);
            s.push_str(&it.join);
        }
        s
    }
    pub fn words(&self) -> Vec<&str> {
        self.items.iter().map(|i| i.text.as_str()).collect()
    }
}

#[derive(Clone, Copy, PartialEq, Eq, Debug)]
pub enum Mode {
    /// whole vocabulary words separated by whitespace / punctuation items
    Clean,
    /// adds glue, truncation, raw unicode
    Dirty,
}

pub const RAW_POOL: [&str; 54] = [
    "u\u{308}", "scho\u{308}n", "A\u{308}pfel", "fu\u{308}nf", "e\u{300}", "n\u{303}",
    "\u{2010}", "a\u{2011}b", "\u{ad}", "–", "—", "\u{2212}", "\u{feff}x", "“q”",
    "", " ", "-", "--", "'", "''", "-'", "a-", "-a", "\u{301}", "e\u{301}", "١٢٣", "１２", "²", "½", "\u{200b}", "\u{feff}", "\0", "ß", "İ", "ǅ", "ﬁ", "ſ", "K", "Ω",
    "𝟘", "x", "12", "3.5", "٣", "日本", "Ⅻ", "a\u{30a}", "\u{1f600}", "\u{e000}", "\u{2028}", "\r\n", "\u{85}", "o'", "'o",
];

type RawItem = (u8, u16, u16, u8, u8, u64, [u8; 10]);

fn raw_item() -> impl Strategy<Value = RawItem> {
    (0u8..100, any::<u16>(), any::<u16>(), 0u8..12, 0u8..24, num_strategy(1_000_000_000_000), any::<[u8; 10]>())
}

fn recase(w: &str, casing: u8) -> String {
    match casing {
        8 => {
            let mut c = w.chars();
            match c.next() {
                Some(f) => f.to_uppercase().collect::<String>() + c.as_str(),
                None => w.to_string(),
            }
        }
        // capitals; a sharp s becomes the capital sharp s U+1E9E (the other orthographic option, SS, is what
        // to_uppercase gives and is covered by the recasing property itself)
        9 => w.chars().map(|c| if c == 'ß' { "ẞ".to_string() } else { c.to_uppercase().collect::<String>() }).collect(),
        10 => w.chars().enumerate().map(|(i, c)| if i % 2 == 1 { c.to_uppercase().collect::<String>() } else { c.to_string() }).collect(),
        _ => w.to_string(),
    }
}

fn build_items(lang: &str, mode: Mode, raw: Vec<RawItem>, out: &mut Vec<Item>) {
    let v = vocab_of(lang);
    for (kind, a, b, casing, join, n, extra) in raw {
        let join_s: String = match (mode, join) {
            (Mode::Dirty, 20) => "-".to_string(),
            (Mode::Dirty, 21) => String::new(),
            (Mode::Dirty, 22) => "'".to_string(),
            (Mode::Dirty, 23) => " -".to_string(),
            (Mode::Dirty, 18) => ["-\n", "-\r\n", "- ", "-\t"][(b as usize) % 4].to_string(),
            (_, 19) => ["\n\n", "\r\n\r\n", "\n \n", "\n\n\n"][(b as usize) % 4].to_string(),
            (_, j) => SPACES[if j < 14 { 0 } else { (j as usize - 14) % SPACES.len() }].to_string(),
        };
        let mut push = |text: String, class: Class, out: &mut Vec<Item>| out.push(Item { text: recase(&text, casing), class, join: join_s.clone() });
        match kind {
            0..=29 => {
                let c = &v.classes[idx(a, v.classes.len())];
                let w = c[idx(b, c.len())].clone();
                let class = if idx(a, v.classes.len()) == v.ord_class || idx(a, v.classes.len()) == 7 { Class::Ord } else if idx(a, v.classes.len()) == v.zero_class { Class::Zero } else { Class::Num };
                push(w, class, out);
            }
            30..=41 => {
                let mut ch = Bytes::new(&extra);
                // 1 in 12: a numeral beyond the spellers' range, built with the 10^12 scale words the
                // language publishes (de billion, it bilione/bilioni, nl biljoen, pt bilião/biliões): 16..25 digits
                let chain: &[&str] = match lang {
                    "de" => &["millionen", "milliarden", "milliarde", "billion"],
                    "it" => &["milioni", "miliardi", "bilioni"],
                    "nl" => &["miljoen", "miljard", "biljoen"],
                    "pt" => &["milhões", "biliões"],
                    "en" => &["thousand", "million", "billion"],
                    "fr" => &["mille", "millions", "milliard"],
                    _ => &[],
                };
                if extra[7] < 21 && !chain.is_empty() {
                    for w in spell::cardinal(lang, 2 + n % 998, &mut ch) {
                        push(w, Class::Num, out);
                    }
                    if extra[6] & 1 == 0 {
                        push(chain[extra[6] as usize / 2 % (chain.len() - 1)].to_string(), Class::Num, out);
                    }
                    // the top scale word, sometimes in its ordinal form where the language publishes one
                    let top_ord: Option<&str> = match lang { "de" => Some("billionste"), "it" => Some("bilionesimo"), "nl" => Some("biljoenste"), "en" => Some("billionth"), "fr" => Some("milliardième"), _ => None };
                    if extra[5] >= 224 && top_ord.is_some() {
                        push(top_ord.unwrap().to_string(), Class::Ord, out);
                    } else {
                        push(chain[chain.len() - 1].to_string(), Class::Num, out);
                    }
                    // low-order digits after the chain: values above 2^53 that are not exactly representable
                    if extra[5] & 1 == 0 {
                        for w in spell::cardinal(lang, 1 + (n / 1000) % 999, &mut ch) {
                            push(w, Class::Num, out);
                        }
                    }
                } else if mode == Mode::Dirty && extra[1] < 26 {
                    // the whole phrase glued into one token (no spaces at all)
                    push(spell::cardinal(lang, n, &mut ch).concat(), Class::Raw, out);
                } else {
                    for w in spell::cardinal(lang, n, &mut ch) {
                        push(w, Class::Num, out);
                    }
                }
            }
            42..=49 => {
                let mut ch = Bytes::new(&extra);
                let r = 1 + n % spell::ordinal_max(lang).min(if a & 1 == 0 { 120 } else { u64::MAX });
                if let Some((ws, _)) = spell::ordinal(lang, r, &mut ch) {
                    let l = ws.len();
                    for (i, w) in ws.into_iter().enumerate() {
                        push(w, if i + 1 == l { Class::Ord } else { Class::Num }, out);
                    }
                }
            }
            50..=56 => push(v.linking[idx(a, v.linking.len())].to_string(), Class::Link, out),
            69..=71 if lang == "fr" => {
                // the shapes the documented `neuf` (new/nine) heuristic keys on: determiner, 0-2 words, neuf
                push(["le", "du", "un", "l'"][idx(a, 4)].to_string(), Class::Filler, out);
                match b & 3 {
                    0 => {}
                    1 => push(v.fillers[idx(b, v.fillers.len())].to_string(), Class::Filler, out),
                    2 => push(v.classes[idx(b, 5)][0].clone(), Class::Num, out),
                    _ => {
                        push(v.fillers[idx(b, v.fillers.len())].to_string(), Class::Filler, out);
                        push(v.classes[2][idx(b, v.classes[2].len())].clone(), Class::Num, out);
                    }
                }
                push("neuf".to_string(), Class::Num, out);
            }
            57 | 58 if lang == "fr" || lang == "it" || lang == "en" => {
                // elisions / contractions: one token with an apostrophe, built from a clitic and a word of any class
                let base: String = match b % 4 {
                    0 => v.linking[idx(a, v.linking.len())].to_string(),
                    1 => v.number_words[idx(a, v.number_words.len())].clone(),
                    _ => v.fillers[idx(a, v.fillers.len())].to_string(),
                };
                let w = match lang {
                    "fr" => format!("{}{}", ["c'", "d'", "j'", "l'", "m'", "n'", "s'", "t'", "qu'", "jusqu'", "lorsqu'", "puisqu'"][(b as usize / 4) % 12], base),
                    "it" => format!("{}{}", ["l'", "un'", "dell'", "all'", "d'", "quell'"][(b as usize / 4) % 6], base),
                    _ => {
                        // English: an apostrophe inserted before the last one or two letters (we'll, it's, that'll)
                        let n = base.chars().count();
                        let cut = n.saturating_sub(1 + (b as usize / 4) % 2).max(1);
                        let (h, t): (String, String) = (base.chars().take(cut).collect(), base.chars().skip(cut).collect());
                        format!("{}'{}", h, t)
                    }
                };
                // ordinary words for every oracle: none of them is a number or a linking word
                push(w, Class::Filler, out);
            }
            57..=71 if mode == Mode::Dirty && b % 8 == 3 => {
                // one token glued from 2-4 vocabulary words (what a speech-to-text front end or a typo produces, and what
                // the compound splitters of de / it / nl and any prefix-stripping rule get to see): number word + infix +
                // any word; conjunction + two number words; or a free mix
                const INFIX: [&str; 8] = ["i", "y", "e", "und", "en", "et", "s", "-"];
                let nw = |k: u8| v.number_words[idx(a.rotate_left(k as u32 * 5) ^ (extra[k as usize % 8] as u16) << 8, v.number_words.len())].clone();
                let any = |k: u8| -> String {
                    match extra[(k as usize + 3) % 8] % 10 {
                        0..=2 => v.conj.to_string(),
                        3..=7 => nw(k),
                        8 => v.fillers[idx(a.rotate_left(k as u32 * 3), v.fillers.len())].to_string(),
                        _ => INFIX[extra[k as usize % 8] as usize % 8].to_string(),
                    }
                };
                let w: String = match b / 8 % 3 {
                    0 => [nw(0), INFIX[extra[0] as usize % 8].to_string(), any(1)].concat(),
                    1 => [v.conj.to_string(), nw(0), nw(1)].concat(),
                    _ => (0..2 + extra[1] % 3).map(any).collect::<Vec<_>>().concat(),
                };
                push(w, Class::Raw, out);
            }
            57..=71 if !v.phrases.is_empty() && b % 16 == 5 => {
                // a multi-word expression the tree's vocabulary files publish, word by word
                for w in &v.phrases[idx(a, v.phrases.len())] {
                    push(w.to_string(), if v.linking.contains(w) { Class::Link } else { Class::Filler }, out);
                }
            }
            57..=71 => push(v.fillers[idx(a, v.fillers.len())].to_string(), Class::Filler, out),
            72..=77 => push(v.conj_alts[idx(a, v.conj_alts.len())].to_string(), Class::Conj, out),
            78..=82 => push(v.sep.to_string(), Class::Sep, out),
            83..=87 => push(v.zeros[idx(a, v.zeros.len())].to_string(), Class::Zero, out),
            88 => push(["7", "12", "500", "2024", "007", "1000000", "3", "0"][idx(a, 8)].to_string(), Class::Digits, out),
            89 => {
                if mode == Mode::Dirty {
                    push(RAW_POOL[idx(a, RAW_POOL.len())].to_string(), Class::Raw, out)
                } else {
                    push(v.number_words[idx(a, v.number_words.len())].clone(), Class::Num, out)
                }
            }
            _ => {
                let p = PUNCT[idx(a, PUNCT.len())].to_string();
                // punctuation usually sticks to the previous word
                if b & 3 != 0 {
                    if let Some(prev) = out.last_mut() {
                        prev.join = String::new();
                    }
                }
                // opening quotes / brackets stick to the following word
                let own_join = if matches!(p.as_str(), "'" | "(" | "—") && b & 12 == 0 { String::new() } else { join_s.clone() };
                out.push(Item { text: p, class: Class::Punct, join: own_join });
            }
        }
        // stutter: the item just produced is repeated (speech-to-text output does this); rarely a long run
        if kind < 90 && extra[4] >= 246 {
            if let Some(last) = out.last().cloned() {
                let reps = if extra[3] >= 250 { 20 + (extra[2] as usize % 60) } else { 1 + (extra[3] as usize % 5) };
                for _ in 0..reps {
                    out.push(last.clone());
                }
            }
        }
        if mode == Mode::Dirty && kind < 90 && extra[9] >= 238 {
            // truncate the last word (a broken number word)
            if let Some(last) = out.last_mut() {
                let k = last.text.chars().count();
                if k > 2 {
                    last.text = last.text.chars().take(k - 1 - (extra[8] as usize % (k - 1)).min(k - 2)).collect();
                    last.class = Class::Raw;
                }
            }
        }
    }
}

/// a tagged sentence of 0..=max_items generated items (speller phrases expand to several items)
pub fn sentence_for(lang: String, mode: Mode, max_items: usize) -> BoxedStrategy<Sentence> {
    (proptest::collection::vec(raw_item(), 0..=max_items), 0u8..16, 0u8..8)
        .prop_map(move |(raw, lead, trail)| {
            let mut items = vec![];
            build_items(&lang, mode, raw, &mut items);
            let lead_s = if lead >= 12 { SPACES[(lead as usize - 12) * 2 % SPACES.len()].to_string() } else { String::new() };
            if let Some(last) = items.last_mut() {
                if trail < 6 {
                    last.join = String::new();
                }
            }
            Sentence { lead: lead_s, items }
        })
        .boxed()
}
pub fn sentence_strategy(mode: Mode, max_items: usize) -> BoxedStrategy<(String, Sentence)> {
    (0usize..7)
        .prop_flat_map(move |i| {
            let l = LANGS[i].to_string();
            sentence_for(l.clone(), mode, max_items).prop_map(move |s| (l.clone(), s))
        })
        .boxed()
}

/// arbitrary unicode text for the totality checks
pub fn wild_text() -> BoxedStrategy<String> {
    prop_oneof![
        2 => any::<String>(),
        2 => "\\PC*",
        1 => "[ \\t\\n\u{a0}\u{2009}]{0,6}",
        1 => "[-' ]{0,8}",
        2 => proptest::collection::vec((0usize..RAW_POOL.len(), 0u8..4), 0..12).prop_map(|v| {
            let mut s = String::new();
            for (i, j) in v {
                s.push_str(RAW_POOL[i]);
                s.push_str(["", " ", "-", "'"][j as usize]);
            }
            s
        }),
    ]
    .boxed()
}
