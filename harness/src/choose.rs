//! Source of variant choices. All nondeterminism of a speller goes through `pick`.
pub trait Chooser {
    /// pick a value in 0..n (n >= 1). 0 is always the canonical choice.
    fn pick(&mut self, n: usize) -> usize;
    fn flag(&mut self) -> bool { self.pick(2) == 1 }
}
/// Always canonical.
pub struct Canon;
impl Chooser for Canon { fn pick(&mut self, _n: usize) -> usize { 0 } }
/// Byte-driven (bytes come from the PBT library so shrinking works: zeros = canonical).
pub struct Bytes<'a> { pub data: &'a [u8], pub pos: usize }
impl<'a> Bytes<'a> { pub fn new(data: &'a [u8]) -> Self { Self { data, pos: 0 } } }
impl Chooser for Bytes<'_> {
    fn pick(&mut self, n: usize) -> usize {
        if n <= 1 { return 0; }
        let b = self.data.get(self.pos).copied().unwrap_or(0); self.pos += 1;
        (b as usize * n) >> 8
    }
}
/// Odometer enumeration of every choice sequence.
pub struct Enumerate { choices: Vec<usize>, arity: Vec<usize>, pos: usize }
impl Enumerate {
    pub fn new() -> Self { Self { choices: vec![], arity: vec![], pos: 0 } }
    /// advance to next sequence; false when exhausted
    pub fn advance(&mut self) -> bool {
        self.choices.truncate(self.pos); self.arity.truncate(self.pos);
        while let Some(c) = self.choices.pop() {
            let a = self.arity.pop().unwrap();
            if c + 1 < a { self.choices.push(c + 1); self.arity.push(a); self.pos = 0; return true; }
        }
        false
    }
}
impl Chooser for Enumerate {
    fn pick(&mut self, n: usize) -> usize {
        if n <= 1 { return 0; }
        if self.pos < self.choices.len() { let c = self.choices[self.pos]; self.pos += 1; c.min(n-1) }
        else { self.choices.push(0); self.arity.push(n); self.pos += 1; 0 }
    }
}
/// xorshift-driven for exploration sweeps
pub struct Rng(pub u64);
impl Rng { pub fn next(&mut self) -> u64 { let mut x=self.0; x^=x<<13; x^=x>>7; x^=x<<17; self.0=x; x } }
impl Chooser for Rng { fn pick(&mut self, n: usize) -> usize { if n<=1 {0} else { (self.next() % n as u64) as usize } } }
