//! Byte decoders for the libFuzzer targets (hand-rolled `Unstructured`-style reader; no RNG):
//! bytes -> structured cases of C02/C03/C06/C07 (text API) and C12 (digit builder).
use crate::gen::{vocab_of, RAW_POOL, THRESHOLDS};
use crate::props::c12::Op;
use crate::spell::vocab::{PUNCT, SPACES};
use crate::util::LANGS;

pub struct Reader<'a> {
    data: &'a [u8],
    pos: usize,
}
impl<'a> Reader<'a> {
    pub fn new(data: &'a [u8]) -> Self {
        Reader { data, pos: 0 }
    }
    pub fn byte(&mut self) -> Option<u8> {
        let b = self.data.get(self.pos).copied();
        self.pos += 1;
        b
    }
    pub fn u16(&mut self) -> u16 {
        let a = self.byte().unwrap_or(0) as u16;
        let b = self.byte().unwrap_or(0) as u16;
        a << 8 | b
    }
    pub fn done(&self) -> bool {
        self.pos >= self.data.len()
    }
    pub fn take(&mut self, n: usize) -> &'a [u8] {
        let start = self.pos.min(self.data.len());
        let end = (start + n).min(self.data.len());
        self.pos = end;
        &self.data[start..end]
    }
}

pub struct TextInput {
    pub lang: &'static str,
    pub th_bits: u64,
    pub text: String,
    pub hints: Vec<u8>,
}
/// layout: [lang][threshold selector][8 optional raw f64 bytes] then items:
///   tag byte t: t%8 = 0..3 vocabulary word by class, 4 punctuation, 5 raw pool fragment,
///   6 literal run of UTF-8 taken from the input, 7 linking/filler/conj/sep word; t/8%4 selects the joiner
pub fn decode_text(data: &[u8]) -> TextInput {
    let mut r = Reader::new(data);
    let lang = LANGS[r.byte().unwrap_or(0) as usize % 7];
    let tsel = r.byte().unwrap_or(0);
    let th_bits = if tsel == 255 {
        let mut b = [0u8; 8];
        for x in b.iter_mut() {
            *x = r.byte().unwrap_or(0);
        }
        u64::from_le_bytes(b)
    } else {
        THRESHOLDS[tsel as usize % THRESHOLDS.len()].to_bits()
    };
    let v = vocab_of(lang);
    let mut text = String::new();
    let mut hints = vec![];
    let mut items = 0;
    while !r.done() && items < 64 {
        items += 1;
        let t = r.byte().unwrap_or(0);
        let idx = r.u16() as usize;
        match t % 8 {
            0..=3 => {
                let c = &v.classes[idx % v.classes.len()];
                text.push_str(&c[(idx / 7) % c.len()]);
            }
            4 => text.push_str(PUNCT[idx % PUNCT.len()]),
            5 => text.push_str(RAW_POOL[idx % RAW_POOL.len()]),
            6 => {
                let bytes = r.take(idx % 12);
                text.push_str(&String::from_utf8_lossy(&bytes));
            }
            _ => match idx % 4 {
                0 => text.push_str(v.linking[(idx / 4) % v.linking.len()]),
                1 => text.push_str(v.fillers[(idx / 4) % v.fillers.len()]),
                2 => text.push_str(v.conj),
                _ => text.push_str(v.sep),
            },
        }
        match (t / 8) % 8 {
            0..=4 => text.push(' '),
            5 => text.push_str(SPACES[(t as usize / 64) % SPACES.len()]),
            6 => text.push('-'),
            _ => {}
        }
        hints.push(t.rotate_left(3) ^ (idx as u8));
    }
    TextInput { lang, th_bits, text, hints }
}

pub fn decode_ops(data: &[u8]) -> Vec<Op> {
    let mut r = Reader::new(data);
    let mut ops = vec![];
    while !r.done() && ops.len() < 48 {
        let t = r.byte().unwrap_or(0);
        let a = r.byte().unwrap_or(0);
        let digits = |r: &mut Reader| -> String {
            let n = 1 + (a as usize % 5);
            (0..n).map(|_| (b'0' + r.byte().unwrap_or(0) % 10) as char).collect()
        };
        ops.push(match t % 16 {
            0..=5 => Op::Put(digits(&mut r)),
            6 | 7 => Op::PutDigitAt((b'0' + a % 10) as char, (a / 10) as usize % 14),
            8..=11 => Op::Shift([0usize, 1, 2, 3, 3, 6, 9, 12, 4, 5][a as usize % 10]),
            12 => Op::Fput(digits(&mut r)),
            13 => Op::Push(digits(&mut r)),
            14 => if a > 200 { Op::PutZeros(a as u16 + 56) } else { Op::Freeze },
            _ => Op::Reset,
        });
    }
    ops
}
