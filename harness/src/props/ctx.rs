//! Non-number sentence contexts (prefix, suffix) for the speller-based round-trip properties.
use crate::gen::*;
use crate::spell::vocab::*;
use proptest::prelude::*;

/// linking words that are themselves number words in the language (kept out of contexts)
const NUMBERISH_LINKING: [&str; 2] = ["um", "un"];

fn ctx_word(lang: &str, a: u16, b: u16) -> String {
    let v = vocab_of(lang);
    if b & 3 == 0 {
        let links: Vec<&&str> = v.linking.iter().filter(|w| !NUMBERISH_LINKING.contains(*w) && **w != v.conj && **w != v.sep).collect();
        links[idx(a, links.len())].to_string()
    } else {
        v.fillers[idx(a, v.fillers.len())].to_string()
    }
}
const SAFE_PUNCT: [&str; 10] = [",", ".", ";", ":", "!", "?", "’", "”", "»", "…"];

/// (prefix, suffix): prefix is empty or ends with whitespace; suffix is empty or starts with
/// whitespace / sentence punctuation, so the number's first and last words are whole tokens.
/// `tail_words`: allow the suffix to start with the conjunction or the decimal-separator word
/// followed by an ordinary word (the number must end before it).
pub fn context(lang: String, tail_words: bool) -> BoxedStrategy<(String, String)> {
    (proptest::collection::vec((any::<u16>(), any::<u16>(), 0u8..10), 0..4), proptest::collection::vec((any::<u16>(), any::<u16>(), 0u8..10), 0..4), 0u8..10, 0u8..10)
        .prop_map(move |(pre, suf, cap, tail)| {
            let v = vocab_of(&lang);
            let mut p = String::new();
            for (i, (a, b, k)) in pre.iter().enumerate() {
                let mut w = ctx_word(&lang, *a, *b);
                if i == 0 && cap < 3 {
                    let mut c = w.chars();
                    w = match c.next() {
                        Some(f) => f.to_uppercase().collect::<String>() + c.as_str(),
                        None => w,
                    };
                }
                p.push_str(&w);
                if *k == 0 {
                    p.push_str(SAFE_PUNCT[idx(*a, SAFE_PUNCT.len())]);
                }
                p.push(' ');
            }
            let mut s = String::new();
            let mut first = true;
            if tail_words && tail < 3 && !suf.is_empty() {
                s.push(' ');
                s.push_str(if tail == 0 { v.sep } else { v.conj });
                first = false;
            }
            for (a, b, k) in suf.iter() {
                if first && *k == 0 {
                    s.push_str(SAFE_PUNCT[idx(*b, SAFE_PUNCT.len())]);
                }
                first = false;
                s.push(' ');
                // after a conjunction/separator word the next word must be an ordinary word
                s.push_str(&if s.ends_with(&format!("{} ", v.sep)) || s.ends_with(&format!("{} ", v.conj)) { v.fillers[idx(*a, v.fillers.len())].to_string() } else { ctx_word(&lang, *a, *b) });
                if *k == 1 {
                    s.push_str(SAFE_PUNCT[idx(*a, SAFE_PUNCT.len())]);
                }
            }
            (p, s)
        })
        .boxed()
}
