//! C03 Totality: every public entry point returns for every input, never panics.
use crate::engine::*;
use crate::gen::*;
use crate::util::*;
use proptest::prelude::*;
use serde::{Deserialize, Serialize};
use serde_json::json;
use text2num::{find_numbers, find_numbers_iter, get_interpreter_for, replace_numbers_in_stream, replace_numbers_in_text, text2digits};

#[derive(Clone, Debug, Hash, Serialize, Deserialize)]
pub struct Case {
    pub lang: String,
    pub text: String,
    /// the text is repeated this many times (long inputs without huge replay files)
    pub repeat: u32,
    pub th_bits: u64,
}
pub struct C03;

/// Long inputs for the child-process part of the check: (language, text). `n` scales the sparse inputs;
/// number-dense inputs are kept shorter because rewriting a stream is quadratic in the number of occurrences.
pub fn long_inputs(n: usize) -> Vec<(&'static str, String)> {
    let dense = (n / 50).max(1000);
    let mut v: Vec<(&'static str, String)> = vec![
        ("en", "cows ".repeat(n)),
        ("fr", "vaches, ".repeat(n)),
        ("de", format!("{}zwanzig fünf", "Haus ".repeat(n))),
        ("en", format!("twenty five {}", "the ".repeat(n))),
        ("es", "a".repeat(n * 4)),
        ("it", "-".repeat(n * 4)),
        ("nl", "'".repeat(n * 4)),
        ("pt", " \t\n".repeat(n)),
        ("en", ". ".repeat(n)),
        ("en", "and ".repeat(n)),
        ("en", "point ".repeat(n)),
        ("en", "o ".repeat(dense)),
        ("en", "one ".repeat(dense)),
        ("fr", "zéro ".repeat(dense)),
        ("en", "twenty one ".repeat(dense)),
        ("en", format!("three point {}", "one ".repeat(dense))),
        ("en", format!("twenty{}", "-one".repeat(n))),
        ("fr", format!("vingt{}", "-et-un".repeat(n))),
        ("de", "und".repeat(n)),
        ("de", "tausend".repeat(n)),
        ("de", format!("ein{}", "undzwanzig".repeat(dense))),
        ("it", "cento".repeat(n)),
        ("nl", "honderd".repeat(n)),
        ("nl", format!("een{}", "entwintig".repeat(dense))),
        ("es", "mil ".repeat(dense)),
        ("pt", "mil e ".repeat(dense)),
        ("en", "first second ".repeat(dense)),
        ("de", "eins komma ".repeat(dense)),
    ];
    v.push(("en", format!("{} o {}", "x ".repeat(n), "y ".repeat(n))));
    v
}
/// child process body: runs every entry point on long input #i in a thread with the default 2 MiB stack
pub fn long_worker(status_file: &str, n: usize, only: Option<usize>) {
    let inputs = long_inputs(n);
    for (i, (l, text)) in inputs.iter().enumerate() {
        if only.map_or(false, |o| o != i) {
            continue;
        }
        let _ = std::fs::write(status_file, format!("running {}", i));
        let (l, text) = (l.to_string(), text.clone());
        let h = std::thread::Builder::new().spawn(move || {
            let lg = lang(&l);
            for th in [0.0f64, 10.0] {
                let _ = text2digits(&text, lg);
                let _ = replace_numbers_in_text(&text, lg, th);
                let toks = tokens_of(&text);
                let _ = find_numbers(toks.iter(), lg, th).len();
                let mut it = find_numbers_iter(toks.iter(), lg, th);
                let mut k = 0usize;
                while let Some(_o) = it.next() {
                    k += 1;
                }
                let _ = (it.next().is_some(), k);
            }
        });
        // a panic in the thread is a violation too, but it is reported by the generated part; here we only need "returns"
        let r = h.map(|h| h.join());
        if !matches!(r, Ok(Ok(()))) {
            let _ = std::fs::write(status_file, format!("panicked {}", i));
            std::process::exit(3);
        }
    }
    let _ = std::fs::write(status_file, format!("done {}", inputs.len()));
}

/// run every entry point on (lang, text, threshold); Err on panic or on a wrong non-number verdict
pub fn all_entry_points(lang_code: &str, text: &str, th: f64) -> Result<usize, String> {
    let lg = lang(lang_code);
    let v = no_panic("text2digits", || text2digits(text, lg))?;
    if !text.chars().any(|c| c.is_alphanumeric()) {
        if let Ok(d) = &v {
            return Err(format!("text2digits validated a text without any word as {:?}", d));
        }
    }
    // ordinary words only: not a number
    if !text.is_empty() && text.split_whitespace().all(|w| crate::gen::vocab_of(lang_code).fillers.iter().any(|f| f.eq_ignore_ascii_case(w))) {
        if let Ok(d) = &v {
            return Err(format!("text2digits validated ordinary words {:?} as {:?}", text, d));
        }
    }
    if let Ok(d) = &v {
        if d.is_empty() {
            return Err("text2digits returned Ok with an empty digit string".into());
        }
    }
    let out = no_panic("replace_numbers_in_text", || replace_numbers_in_text(text, lg, th))?;
    let toks = no_panic("tokenize", || tokens_of(text))?;
    let batch = no_panic("find_numbers", || occs(find_numbers(toks.iter(), lg, th)))?;
    let lazy = no_panic("find_numbers_iter", || {
        let mut it = find_numbers_iter(toks.iter(), lg, th);
        let mut v = vec![];
        while let Some(o) = it.next() {
            v.push(o);
        }
        // polling an exhausted iterator must keep returning
        let again = (it.next().is_some(), it.next().is_some());
        (occs(v), again)
    })?;
    // a lazy search over a practically endless stream (the text's tokens followed by usize::MAX ordinary
    // words; size_hint = (usize::MAX, Some(usize::MAX))), abandoned once the text's own numbers have been
    // returned: legitimate use of an iterator that "reads the stream on demand"
    if !toks.is_empty() {
        let first = no_panic("find_numbers(threshold 0)", || find_numbers(toks.iter(), lg, 0.0).len())?;
        let filler = text2num::verif_hooks::BasicToken::new("xq");
        let got = no_panic("find_numbers_iter over an endless stream", || find_numbers_iter(toks.iter().chain(std::iter::repeat(&filler).take(usize::MAX)), lg, 0.0).take(first).count())?;
        if got != first {
            return Err(format!("lazy search over an endless stream returned {} of the {} numbers of the text", got, first));
        }
    }
    let _ = (batch, lazy, out);
    // own tokens: whitespace split, every piece a token (ASR-like stream)
    let stream: Vec<Tk> = text.split_whitespace().enumerate().map(|(i, w)| Tk::new(i, w)).collect();
    let n = stream.len();
    let _ = no_panic("find_numbers(stream)", || find_numbers(stream.iter(), lg, th))?;
    let _ = no_panic("replace_numbers_in_stream", || replace_numbers_in_stream(stream, lg, th))?;
    // ASR-style tokens whose lowercase form is a normalised one (punctuation stripped, possibly empty)
    let norm_stream: Vec<Tk> = text
        .split_whitespace()
        .enumerate()
        .map(|(i, w)| {
            let mut t = Tk::new(i, w);
            t.lower = w.to_lowercase().chars().filter(|c| c.is_alphanumeric() || *c == '-' || *c == '\'').collect();
            t
        })
        .collect();
    let _ = no_panic("find_numbers(stream with normalised lowercase forms)", || find_numbers(norm_stream.iter(), lg, th).len())?;
    let _ = no_panic("find_numbers_iter(stream with normalised lowercase forms)", || find_numbers_iter(norm_stream.iter(), lg, th).count())?;
    let _ = no_panic("replace_numbers_in_stream(normalised lowercase forms)", || replace_numbers_in_stream(norm_stream, lg, th).len())?;
    let _ = no_panic("get_interpreter_for", || get_interpreter_for(text).is_some())?;
    // the word-group validator underneath text2digits, on the words as they are (not lowercased) and with an
    // empty word in the group (what a caller splitting on single spaces hands over)
    let _ = no_panic("exec_group(words)", || text2num::LangInterpreter::exec_group(lg, text.split_whitespace()).is_ok())?;
    let _ = no_panic("exec_group(split on ' ')", || text2num::LangInterpreter::exec_group(lg, text.split(' ')).is_ok())?;
    Ok(n)
}

impl Property for C03 {
    type Input = Case;
    fn id(&self) -> &'static str {
        "C03"
    }
    fn rule(&self) -> String {
        "Generated: (language, text, repeat, threshold) with text drawn from any::<String>(), \\PC*, whitespace-only, hyphen/apostrophe-only, a pool of hostile fragments (combining marks, non-Latin digits, ZWSP, BOM, NUL, ß, İ, ligatures, line separators), and the dirty sentence generator (vocabulary words glued, truncated, recased); 1 in 17 texts has an exact byte length of 2^k-4 .. 2^k+1 (k = 4..10, 12, 16) reached by padding with characters whose lowercase / uppercase form is longer than they are (İ Ⱥ Ⱦ ß ŉ ﬁ ǰ), multi-byte letters, a combining mark, an emoji; repeat up to 2000 for long inputs (capped at 200 kB in total); thresholds incl. NaN, ±inf, negative, subnormal. Every entry point (text2digits, replace_numbers_in_text, find_numbers, find_numbers_iter drained then polled twice, replace_numbers_in_stream on whitespace-split own tokens and on own tokens whose lowercase form is normalised (punctuation stripped, possibly empty), the lazy search over the text's tokens followed by usize::MAX ordinary tokens, exec_group on the words as they are and on the text split on single spaces, get_interpreter_for) is called under catch_unwind; text2digits must answer Err for texts without any alphanumeric character and never Ok(\"\"). Enumerated: every string of length <= 3 over a 9-character alphabet x 7 languages. Whole-run procedure: 29 very long inputs (400 000 / 2 000 000 repetitions of ordinary words, punctuation, hyphens, apostrophes, whitespace, conjunction/separator words; 8 000 / 40 000 repetitions of number words, decimals, ordinals; one-token hyphen chains and German/Italian/Dutch glued compounds of that length) are run through text2digits, replace_numbers_in_text, find_numbers and find_numbers_iter in a child process on a default 2 MiB thread stack; the child being killed (stack overflow, abort) or panicking is a violation attributed to the running input; exceeding the time cap is inconclusive. Non-trivial = distinct (lang,text) with no alphanumeric char, or a multi-byte char, or a hyphen/apostrophe at a token edge, or total length > 1000, or a non-finite threshold.".into()
    }
    fn assumptions(&self) -> Vec<String> {
        vec!["non-termination would show as the watchdog expiring (exit 2, inconclusive), not as a violation".into()]
    }
    fn exhaustive_subdomains(&self, _tier: Tier) -> Vec<String> {
        vec!["all strings of length <= 3 over {' ', '-', ''', 'o', 'a', '1', '.', U+00A0, U+0301} x 7 languages".into()]
    }
    fn strategy(&self, _tier: Tier) -> BoxedStrategy<Case> {
        let text = prop_oneof![
            3 => wild_text(),
            4 => sentence_strategy(Mode::Dirty, 10).prop_map(|(_, s)| s.render()),
            1 => sentence_strategy(Mode::Clean, 10).prop_map(|(_, s)| s.render()),
        ];
        // texts of an exact byte length at / next to a power of two, padded with characters whose lowercase or
        // uppercase form is longer than they are (İ Ⱥ Ⱦ ß ŉ ﬁ ǰ), multi-byte letters, a combining mark, an emoji
        const PAD: [&str; 16] = ["a", " ", "İ", "Ⱥ", "Ⱦ", "ß", "ŉ", "ﬁ", "ǰ", "ǅ", "\u{301}", "é", "字", "😀", "x ", "-"];
        let sized = (sentence_strategy(Mode::Dirty, 4).prop_map(|(_, s)| s.render()), 0usize..9, 0usize..6, proptest::collection::vec(0usize..PAD.len(), 1..12), any::<bool>()).prop_map(|(base, p, d, pads, front)| {
            let target = [16usize, 32, 64, 128, 256, 512, 1024, 4096, 65536][p] + 1 - d;
            let mut t: String = if base.len() <= target / 2 { base } else { String::new() };
            let mut padding = String::new();
            let mut i = 0;
            while t.len() + padding.len() < target {
                padding.push_str(PAD[pads[i % pads.len()]]);
                i += 1;
            }
            while t.len() + padding.len() > target {
                padding.pop();
            }
            while t.len() + padding.len() < target {
                padding.push('a');
            }
            if front {
                t = format!("{}{}", padding, t);
            } else {
                t.push_str(&padding);
            }
            t
        });
        let repeat = prop_oneof![60 => Just(1u32), 4 => 2u32..6, 1 => 100u32..2000];
        // (the exact-length texts are never repeated: their length is the point)
        let text_repeat = prop_oneof![16 => (text, repeat), 1 => (sized, Just(1u32))];
        (lang_strategy(), text_repeat, threshold_strategy()).prop_map(|(lang, (text, repeat), th_bits)| Case { lang, text, repeat, th_bits }).boxed()
    }
    fn cases(&self, tier: Tier) -> u64 {
        tier.pick(250_000, 4_000_000)
    }
    fn enumerate(&self, _tier: Tier, shard: usize, nshards: usize, emit: &mut Emit<Case>) {
        let alpha = [' ', '-', '\'', 'o', 'a', '1', '.', '\u{a0}', '\u{301}'];
        let k = alpha.len() as u64;
        let mut all: Vec<String> = vec![String::new()];
        for len in 1..=3u32 {
            for i in 0..k.pow(len) {
                let mut x = i;
                let mut s = String::new();
                for _ in 0..len {
                    s.push(alpha[(x % k) as usize]);
                    x /= k;
                }
                all.push(s);
            }
        }
        let total = all.len() as u64 * 7;
        for i in shard_range(total, shard, nshards) {
            let case = Case { lang: LANGS[(i % 7) as usize].to_string(), text: all[(i / 7) as usize].clone(), repeat: 1, th_bits: if i % 2 == 0 { 0 } else { 10f64.to_bits() } };
            if !emit(case) {
                return;
            }
        }
    }
    fn fuzz_target(&self) -> Option<&'static str> {
        Some("text_api")
    }
    fn from_fuzz_bytes(&self, data: &[u8]) -> Option<Case> {
        let t = crate::fuzzdec::decode_text(data);
        Some(Case { lang: t.lang.into(), text: t.text, repeat: 1, th_bits: t.th_bits })
    }
    fn extra(&self, tier: Tier, seed: u64, obs: &mut Obs) -> Result<(), (String, serde_json::Value)> {
        // very long inputs, in a child process on a default-size thread stack: a stack overflow or abort
        // kills the child (not the harness) and is attributed to the input that was running
        let n = tier.pick(400_000usize, 2_000_000usize);
        let exe = std::env::current_exe().unwrap_or_else(|_| infra("cannot locate own executable"));
        let status_file = std::env::temp_dir().join(format!("t2n-verif-long-{}-{}.status", std::process::id(), seed));
        let _ = std::fs::remove_file(&status_file);
        let t0 = std::time::Instant::now();
        let mut child = std::process::Command::new(exe)
            .arg("--c03-long-worker")
            .arg(&status_file)
            .arg(n.to_string())
            .stdin(std::process::Stdio::null())
            .stdout(std::process::Stdio::null())
            .stderr(std::process::Stdio::null())
            .spawn()
            .unwrap_or_else(|e| infra(&format!("cannot spawn the long-input worker: {}", e)));
        let cap = std::time::Duration::from_secs(tier.pick(600, 3000));
        let st = loop {
            match child.try_wait() {
                Ok(Some(st)) => break st,
                Ok(None) => {
                    if t0.elapsed() > cap {
                        let _ = child.kill();
                        let status = std::fs::read_to_string(&status_file).unwrap_or_default();
                        let _ = std::fs::remove_file(&status_file);
                        infra(&format!("long-input worker still running after {:?} ({}): inconclusive, not a verdict", cap, status));
                    }
                    std::thread::sleep(std::time::Duration::from_millis(50));
                }
                Err(e) => infra(&format!("long-input worker: {}", e)),
            }
        };
        let status = std::fs::read_to_string(&status_file).unwrap_or_default();
        let _ = std::fs::remove_file(&status_file);
        let inputs = long_inputs(8);
        if st.success() && status.starts_with("done ") {
            obs.evaluations += inputs.len() as u64 * 8;
            obs.label("long-inputs-returned(child process, 2MiB stack)");
            return Ok(());
        }
        let idx: usize = status.split_whitespace().nth(1).and_then(|x| x.parse().ok()).unwrap_or(usize::MAX);
        if idx == usize::MAX {
            infra(&format!("long-input worker ended abnormally before its first input (status {:?}, exit {:?})", status, st));
        }
        let (l, sample) = inputs.get(idx).map(|(l, t)| (*l, t.chars().take(60).collect::<String>())).unwrap_or(("?", String::new()));
        Err((
            format!("an entry point did not return on very long input #{} (lang {}, shape {:?}... x{}): child {} ({:?})", idx, l, sample, n, if status.starts_with("panicked") { "panicked" } else { "was killed (stack overflow / abort)" }, st),
            serde_json::json!({"lang": l, "text": format!("<long input #{} scaled by {}>", idx, n), "repeat": 1, "th_bits": 0}),
        ))
    }
    fn check(&self, c: &Case, obs: &mut Obs) -> Result<(), String> {
        // repeated texts are capped at ~200 kB (a run of 10^5 dictated digits costs the library a minute through
        // fourteen entry points; the really long inputs are the business of the child-process procedure)
        let reps = (c.repeat as usize).min((200_000 / c.text.len().max(1)).max(1));
        let text = if reps <= 1 { c.text.clone() } else { c.text.repeat(reps) };
        let th = th_of(c.th_bits);
        let n = all_entry_points(&c.lang, &text, th)?;
        let no_alnum = !text.chars().any(|ch| ch.is_alphanumeric());
        let multibyte = !text.is_ascii();
        let edge = text.split_whitespace().any(|w| w.starts_with(['-', '\'']) || w.ends_with(['-', '\'']));
        let long = text.len() > 1000;
        let nonfinite = !th.is_finite();
        obs.label_if(text.is_empty(), "empty");
        obs.label_if(no_alnum && !text.is_empty(), "no-alphanumeric");
        obs.label_if(multibyte, "multi-byte");
        obs.label_if(edge, "hyphen/apostrophe-at-edge");
        obs.label_if(long, "long>1000B");
        let pow = text.len().max(1).next_power_of_two();
        obs.label_if(c.repeat == 1 && text.len() >= 12 && (pow - text.len() <= 4 || text.len() - pow / 2 <= 1), "byte-length-at-a-power-of-two(-4..+1)");
        obs.label_if(nonfinite, "non-finite-threshold");
        obs.label_if(n >= 4, "stream>=4-tokens");
        obs.label(&format!("lang-{}", c.lang));
        if no_alnum || multibyte || edge || long || nonfinite {
            obs.nontrivial(&(&c.lang, &c.text, c.repeat));
        }
        obs.sample(|| json!({"lang": c.lang, "text": c.text.chars().take(120).collect::<String>(), "repeat": c.repeat, "threshold": fmt_th(c.th_bits)}));
        Ok(())
    }
}
