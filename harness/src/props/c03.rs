//! C03 Totality: every public entry point returns for every input, never panics.
use crate::engine::*;
use crate::gen::*;
use crate::util::*;
use proptest::prelude::*;
use serde::{Deserialize, Serialize};
use serde_json::json;
use text2num::{find_numbers, find_numbers_iter, get_interpreter_for, replace_numbers_in_stream, replace_numbers_in_text, text2digits};

#[derive(Clone, Debug, Hash, Serialize, Deserialize)]
pub struct Case {
    pub lang: String,
    pub text: String,
    /// the text is repeated this many times (long inputs without huge replay files)
    pub repeat: u32,
    pub th_bits: u64,
}
pub struct C03;

/// run every entry point on (lang, text, threshold); Err on panic or on a wrong non-number verdict
pub fn all_entry_points(lang_code: &str, text: &str, th: f64) -> Result<usize, String> {
    let lg = lang(lang_code);
    let v = no_panic("text2digits", || text2digits(text, lg))?;
    if !text.chars().any(|c| c.is_alphanumeric()) {
        if let Ok(d) = &v {
            return Err(format!("text2digits validated a text without any word as {:?}", d));
        }
    }
    if let Ok(d) = &v {
        if d.is_empty() {
            return Err("text2digits returned Ok with an empty digit string".into());
        }
    }
    let out = no_panic("replace_numbers_in_text", || replace_numbers_in_text(text, lg, th))?;
    let toks = no_panic("tokenize", || tokens_of(text))?;
    let batch = no_panic("find_numbers", || occs(find_numbers(toks.iter(), lg, th)))?;
    let lazy = no_panic("find_numbers_iter", || {
        let mut it = find_numbers_iter(toks.iter(), lg, th);
        let mut v = vec![];
        while let Some(o) = it.next() {
            v.push(o);
        }
        // polling an exhausted iterator must keep returning
        let again = (it.next().is_some(), it.next().is_some());
        (occs(v), again)
    })?;
    let _ = (batch, lazy, out);
    // own tokens: whitespace split, every piece a token (ASR-like stream)
    let stream: Vec<Tk> = text.split_whitespace().enumerate().map(|(i, w)| Tk::new(i, w)).collect();
    let n = stream.len();
    let _ = no_panic("find_numbers(stream)", || find_numbers(stream.iter(), lg, th))?;
    let _ = no_panic("replace_numbers_in_stream", || replace_numbers_in_stream(stream, lg, th))?;
    let _ = no_panic("get_interpreter_for", || get_interpreter_for(text).is_some())?;
    Ok(n)
}

impl Property for C03 {
    type Input = Case;
    fn id(&self) -> &'static str {
        "C03"
    }
    fn rule(&self) -> String {
        "Generated: (language, text, repeat, threshold) with text drawn from any::<String>(), \\PC*, whitespace-only, hyphen/apostrophe-only, a pool of hostile fragments (combining marks, non-Latin digits, ZWSP, BOM, NUL, ß, İ, ligatures, line separators), and the dirty sentence generator (vocabulary words glued, truncated, recased); repeat up to 2000 for long inputs; thresholds incl. NaN, ±inf, negative, subnormal. Every entry point (text2digits, replace_numbers_in_text, find_numbers, find_numbers_iter drained then polled twice, replace_numbers_in_stream, get_interpreter_for) is called under catch_unwind; text2digits must answer Err for texts without any alphanumeric character and never Ok(\"\"). Enumerated: every string of length <= 3 over a 9-character alphabet x 7 languages. Non-trivial = distinct (lang,text) with no alphanumeric char, or a multi-byte char, or a hyphen/apostrophe at a token edge, or total length > 1000, or a non-finite threshold.".into()
    }
    fn assumptions(&self) -> Vec<String> {
        vec!["non-termination would show as the watchdog expiring (exit 2, inconclusive), not as a violation".into()]
    }
    fn exhaustive_subdomains(&self, _tier: Tier) -> Vec<String> {
        vec!["all strings of length <= 3 over {' ', '-', ''', 'o', 'a', '1', '.', U+00A0, U+0301} x 7 languages".into()]
    }
    fn strategy(&self, _tier: Tier) -> BoxedStrategy<Case> {
        let text = prop_oneof![
            3 => wild_text(),
            4 => sentence_strategy(Mode::Dirty, 10).prop_map(|(_, s)| s.render()),
            1 => sentence_strategy(Mode::Clean, 10).prop_map(|(_, s)| s.render()),
        ];
        let repeat = prop_oneof![60 => Just(1u32), 4 => 2u32..6, 1 => 100u32..2000];
        (lang_strategy(), text, repeat, threshold_strategy()).prop_map(|(lang, text, repeat, th_bits)| Case { lang, text, repeat, th_bits }).boxed()
    }
    fn cases(&self, tier: Tier) -> u64 {
        tier.pick(250_000, 4_000_000)
    }
    fn enumerate(&self, _tier: Tier, shard: usize, nshards: usize, emit: &mut Emit<Case>) {
        let alpha = [' ', '-', '\'', 'o', 'a', '1', '.', '\u{a0}', '\u{301}'];
        let k = alpha.len() as u64;
        let mut all: Vec<String> = vec![String::new()];
        for len in 1..=3u32 {
            for i in 0..k.pow(len) {
                let mut x = i;
                let mut s = String::new();
                for _ in 0..len {
                    s.push(alpha[(x % k) as usize]);
                    x /= k;
                }
                all.push(s);
            }
        }
        let total = all.len() as u64 * 7;
        for i in shard_range(total, shard, nshards) {
            let case = Case { lang: LANGS[(i % 7) as usize].to_string(), text: all[(i / 7) as usize].clone(), repeat: 1, th_bits: if i % 2 == 0 { 0 } else { 10f64.to_bits() } };
            if !emit(case) {
                return;
            }
        }
    }
    fn check(&self, c: &Case, obs: &mut Obs) -> Result<(), String> {
        let text = if c.repeat <= 1 { c.text.clone() } else { c.text.repeat(c.repeat as usize) };
        let th = th_of(c.th_bits);
        let n = all_entry_points(&c.lang, &text, th)?;
        let no_alnum = !text.chars().any(|ch| ch.is_alphanumeric());
        let multibyte = !text.is_ascii();
        let edge = text.split_whitespace().any(|w| w.starts_with(['-', '\'']) || w.ends_with(['-', '\'']));
        let long = text.len() > 1000;
        let nonfinite = !th.is_finite();
        obs.label_if(text.is_empty(), "empty");
        obs.label_if(no_alnum && !text.is_empty(), "no-alphanumeric");
        obs.label_if(multibyte, "multi-byte");
        obs.label_if(edge, "hyphen/apostrophe-at-edge");
        obs.label_if(long, "long>1000B");
        obs.label_if(nonfinite, "non-finite-threshold");
        obs.label_if(n >= 4, "stream>=4-tokens");
        obs.label(&format!("lang-{}", c.lang));
        if no_alnum || multibyte || edge || long || nonfinite {
            obs.nontrivial(&(&c.lang, &c.text, c.repeat));
        }
        obs.sample(|| json!({"lang": c.lang, "text": c.text.chars().take(120).collect::<String>(), "repeat": c.repeat, "threshold": fmt_th(c.th_bits)}));
        Ok(())
    }
}
