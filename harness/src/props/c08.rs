//! C08 Numbers said one after another are not fused; digit dictation keeps every digit.
use crate::choose::{Bytes, Canon};
use crate::engine::*;
use crate::gen::*;
use crate::spell;
use crate::util::*;
use proptest::prelude::*;
use serde::{Deserialize, Serialize};
use serde_json::json;
use std::collections::{BTreeMap, BTreeSet};
use std::sync::OnceLock;
use text2num::replace_numbers_in_text;

#[derive(Clone, Debug, Hash, Serialize, Deserialize)]
pub struct Case {
    pub lang: String,
    /// "pair" or "dictation"
    pub kind: String,
    pub a: u64,
    pub b: u64,
    pub conj: bool,
    pub ca: Vec<u8>,
    pub cb: Vec<u8>,
    /// dictated digit string
    pub d: String,
    /// zero-word selectors (en zero|o)
    pub zsel: Vec<u8>,
}
pub struct C08;

fn normw(lang: &str, w: &str) -> String {
    match (lang, w) {
        ("fr", "vingts") => "vingt".into(),
        ("fr", "cents") => "cent".into(),
        _ => w.to_string(),
    }
}
/// split hyphens, normalise plural marks, optionally strip the conjunction word
fn norm(lang: &str, t: &str, strip_conj: bool) -> String {
    let cj = spell::conjunction(lang);
    t.replace('-', " ").split(' ').filter(|w| !w.is_empty() && !(strip_conj && *w == cj)).map(|w| normw(lang, w)).collect::<Vec<_>>().join(" ")
}
struct Rev {
    exact: BTreeMap<String, BTreeSet<u64>>,
    noconj: BTreeMap<String, BTreeSet<u64>>,
}
/// every spelling variant of every n < 1000 -> n (the reverse direction of the reference speller)
fn rev(lang: &str) -> &'static Rev {
    static R: OnceLock<Vec<Rev>> = OnceLock::new();
    &R.get_or_init(|| {
        LANGS
            .iter()
            .map(|l| {
                let mut r = Rev { exact: BTreeMap::new(), noconj: BTreeMap::new() };
                for n in 0..1000u64 {
                    for v in spell::all_variants(l, n) {
                        r.exact.entry(norm(l, &v, false)).or_default().insert(n);
                        r.noconj.entry(norm(l, &v, true)).or_default().insert(n);
                    }
                }
                r
            })
            .collect()
    })[lang_index(lang)]
}

/// reverse table for ordinals: every spelling (all inflections and stem variants) of every rank < 200 ->
/// the set of digit texts it may be rewritten as ("21º", "21ª" ...)
fn rev_ord(lang: &str) -> &'static BTreeMap<String, BTreeSet<String>> {
    static R: OnceLock<Vec<BTreeMap<String, BTreeSet<String>>>> = OnceLock::new();
    &R.get_or_init(|| {
        LANGS
            .iter()
            .map(|l| {
                let mut m: BTreeMap<String, BTreeSet<String>> = BTreeMap::new();
                for n in 1..200u64 {
                    if n > spell::ordinal_max(l) {
                        break;
                    }
                    let mut e = crate::choose::Enumerate::new();
                    let mut guard = 0;
                    loop {
                        if let Some((w, marker)) = spell::ordinal(l, n, &mut e) {
                            m.entry(norm(l, &w.join(" "), false)).or_default().insert(format!("{}{}", n, marker));
                            // the same tolerance as for cardinals: a spelling that differs only by the conjunction word
                            m.entry(format!("\u{1}{}", norm(l, &w.join(" "), true))).or_default().insert(format!("{}{}", n, marker));
                        }
                        guard += 1;
                        if !e.advance() || guard > 3000 {
                            break;
                        }
                    }
                }
                m
            })
            .collect()
    })[lang_index(lang)]
}
fn digit_word(lang: &str, k: u32, zsel: u8, lone: bool) -> String {
    if k == 0 {
        let z = &vocab_of(lang).zeros;
        // en: zero | o ("nought" is not used in dictation); a lone `o` is not a zero (C18)
        let n = if lang == "en" { 2 } else { z.len() };
        let w = z[(zsel as usize * n) >> 8];
        return if lone && w == "o" { "zero".into() } else { w.to_string() };
    }
    if lang == "de" && k == 1 {
        return "eins".into();
    }
    spell::cardinal(lang, k as u64, &mut Canon).join(" ")
}
/// expected grouping: cut after every non-zero digit, trailing zeros form one last group
pub fn dictation_groups(d: &str) -> Vec<String> {
    let mut out = vec![];
    let mut cur = String::new();
    for ch in d.chars() {
        cur.push(ch);
        if ch != '0' {
            out.push(std::mem::take(&mut cur));
        }
    }
    if !cur.is_empty() {
        out.push(cur);
    }
    out
}

impl Property for C08 {
    type Input = Case;
    fn id(&self) -> &'static str {
        "C08"
    }
    fn rule(&self) -> String {
        "Pairs: (language, a in [1,99], b in [0,99], joiner in {space, conjunction word}, variant bytes for each side) spelled by the reference speller and joined; scanned at threshold 0 through the tokenizer pipeline. Oracle (reverse direction of the speller): every word except conjunction words lies in exactly one occurrence, in order; each occurrence's numeral c (after k leading zeros that must equal its leading zero words) must be a number whose set of standard spellings (all variants of c < 1000, hyphens split, French plural marks normalised) contains exactly the covered words - with conjunction words ignored on both sides when the covered words contain one (an extra conjunction never makes a reading illegitimate, a missing one does). So 'twenty twelve' -> 32 fails ('twenty twelve' is no spelling of 32) while 20 12, or 21 for 'twenty one', pass. Enumerated completely in every tier: all 99x100x2 (a,b,joiner) with canonical spellings; generated: random variants of both sides. Ordinal pairs: two ordinals below 100, each with its own inflection and stem variant; every occurrence must be a standard ordinal spelling (reverse table of all inflections of every rank < 200) of the text it is rewritten as, so components whose gender / number disagree are not fused. Cardinal + ordinal pairs (cardinal a < 100 followed by ordinal b < 100; all pairs enumerated in two inflection choices, random variants generated): same oracle, so 'twenty first' may be 21st but 'ten first' may not be 11st (the conjunction tolerance of the cardinal pairs applies; fr lone 'unième' read as 1ème is accepted). Dictation: digit strings d spoken digit by digit (en zeros zero|o, de eins); expected rewrite = d cut after every non-zero digit with trailing zeros as one last group, joined by single spaces; |d| <= 4 enumerated (11110 per language), |d| 5..8 generated. Non-trivial = distinct pairs where b is a unit or teen that could arithmetically be added to a (a multiple of ten >= 20 with b < 20, or any a with b < 10), and dictation strings containing a zero.".into()
    }
    fn assumptions(&self) -> Vec<String> {
        vec![
            "'either both numbers or the single number whose spelling consists of exactly those words' is checked as: any segmentation of the spoken words into standard spellings (French 'vingt quatre vingt deux' is genuinely 24 22 as well as 20 82)".into(),
            "the reverse table is built from the reference spellers (all variants of every n < 1000)".into(),
        ]
    }
    fn exhaustive_subdomains(&self, _tier: Tier) -> Vec<String> {
        vec!["all (a,b,joiner) in [1,99]x[0,99]x{space,conjunction} with canonical spellings, 7 languages".into(), "every spelling variant of both sides for a in {10,20,..,90}, b < 20, both joiners, 7 languages".into(), "all dictated digit strings of length <= 4, canonical digit words, 7 languages".into(), "all (cardinal a, ordinal b) and (ordinal a, ordinal b) in [1,99]^2, two fixed inflection choices, 7 languages".into()]
    }
    fn strategy(&self, _tier: Tier) -> BoxedStrategy<Case> {
        let pair = (lang_strategy(), 1u64..100, 0u64..100, any::<bool>(), choices(), choices()).prop_map(|(lang, a, b, conj, ca, cb)| Case { lang, kind: "pair".into(), a, b, conj, ca, cb, d: String::new(), zsel: vec![] });
        let dict = (lang_strategy(), prop_oneof![1 => "[0-9]{1,4}", 3 => "[0-9]{5,8}", 2 => "[0-9]{0,3}0{1,3}[0-9]{0,3}0{0,2}", 1 => "0{4,8}[0-9]{0,2}", 1 => "[1-9]0{4,7}", 1 => "[0-9]{0,2}0{4,6}[0-9]{0,2}"], proptest::collection::vec(any::<u8>(), 0..8))
            .prop_map(|(lang, d, zsel)| Case { lang, kind: "dictation".into(), a: 0, b: 0, conj: false, ca: vec![], cb: vec![], d, zsel });
        let ordpair = (lang_strategy(), 1u64..100, 1u64..100, proptest::collection::vec(any::<u8>(), 1..6), proptest::collection::vec(any::<u8>(), 1..6)).prop_map(|(lang, a, b, ca, cb)| Case { lang, kind: "ordpair".into(), a, b, conj: false, ca, cb, d: String::new(), zsel: vec![] });
        // a cardinal followed by an ordinal (`twenty first` is 21st, `ten first` is 10 and 1st)
        let cardord = (lang_strategy(), 1u64..100, 1u64..100, proptest::collection::vec(any::<u8>(), 1..6), proptest::collection::vec(any::<u8>(), 1..6)).prop_map(|(lang, a, b, ca, cb)| Case { lang, kind: "cardord".into(), a, b, conj: false, ca, cb, d: String::new(), zsel: vec![] });
        prop_oneof![12 => pair, 4 => dict, 2 => ordpair, 1 => cardord].boxed()
    }
    fn cases(&self, tier: Tier) -> u64 {
        tier.pick(3_000_000, 30_000_000)
    }
    fn enumerate(&self, _tier: Tier, shard: usize, nshards: usize, emit: &mut Emit<Case>) {
        for i in shard_range(99 * 100 * 2 * 7, shard, nshards) {
            let lang = LANGS[(i % 7) as usize];
            let conj = (i / 7) % 2 == 1;
            let b = (i / 14) % 100;
            let a = 1 + i / 1400;
            if !emit(Case { lang: lang.to_string(), kind: "pair".into(), a, b, conj, ca: vec![], cb: vec![], d: String::new(), zsel: vec![] }) {
                return;
            }
        }
        // every cardinal a < 100 followed by every ordinal b < 100, and every ordinal pair, in two fixed inflection choices
        for i in shard_range(99 * 99 * 7 * 4, shard, nshards) {
            let lang = LANGS[(i % 7) as usize];
            let kind = if (i / 7) % 2 == 0 { "cardord" } else { "ordpair" };
            let ch: Vec<u8> = if (i / 14) % 2 == 0 { vec![0] } else { vec![200, 200, 200] };
            let b = 1 + (i / 28) % 99;
            let a = 1 + i / (28 * 99);
            if !emit(Case { lang: lang.to_string(), kind: kind.into(), a, b, conj: false, ca: ch.clone(), cb: ch, d: String::new(), zsel: vec![] }) {
                return;
            }
        }
        // every spelling variant of both sides for a bare ten a in {10,20,..,90} and every b < 20, both joiners:
        // the unit guards ("not after a bare ten") have one arm per word form, variants included
        {
            let mut k = 0u64;
            for lang in LANGS {
                for a in (10..100u64).step_by(10) {
                    let va: Vec<String> = spell::all_variants(lang, a).into_iter().collect();
                    for b in 0..20u64 {
                        let vb: Vec<String> = spell::all_variants(lang, b).into_iter().collect();
                        for (ia, _) in va.iter().enumerate() {
                            for (ib, _) in vb.iter().enumerate() {
                                for conj in [false, true] {
                                    k += 1;
                                    if k as usize % nshards != shard {
                                        continue;
                                    }
                                    let c = Case { lang: lang.to_string(), kind: "pair-variants".into(), a, b, conj, ca: vec![ia as u8], cb: vec![ib as u8], d: String::new(), zsel: vec![] };
                                    if !emit(c) {
                                        return;
                                    }
                                }
                            }
                        }
                    }
                }
            }
        }
        let mut ds: Vec<String> = vec![];
        for len in 1..=4usize {
            for v in 0..10u32.pow(len as u32) {
                ds.push(format!("{:0width$}", v, width = len));
            }
        }
        for i in shard_range(ds.len() as u64 * 7, shard, nshards) {
            let lang = LANGS[(i % 7) as usize];
            if !emit(Case { lang: lang.to_string(), kind: "dictation".into(), a: 0, b: 0, conj: false, ca: vec![], cb: vec![], d: ds[(i / 7) as usize].clone(), zsel: vec![] }) {
                return;
            }
        }
    }
    fn known_signature(&self, c: &Case) -> Option<&'static str> {
        if c.lang == "fr" && c.kind != "dictation" && c.a == 80 && (10..20).contains(&c.b) {
            let wa: Vec<String> = if c.kind == "pair-variants" {
                let v: Vec<String> = spell::all_variants("fr", c.a).into_iter().collect();
                v[(c.ca.first().copied().unwrap_or(0) as usize).min(v.len() - 1)].split(' ').map(|x| x.to_string()).collect()
            } else {
                spell::cardinal("fr", c.a, &mut Bytes::new(&c.ca))
            };
            if wa.iter().any(|w| w.split('-').any(|p| p == "huitante" || p == "octante")) {
                return Some("fr-huitante-dix");
            }
        }
        None
    }
    fn check(&self, c: &Case, obs: &mut Obs) -> Result<(), String> {
        let lg = lang(&c.lang);
        let l = c.lang.as_str();
        if c.kind == "dictation" {
            if c.d.is_empty() || c.d.len() > 8 {
                return Ok(());
            }
            let lone = c.d.len() == 1;
            let words: Vec<String> = c.d.chars().enumerate().map(|(i, ch)| digit_word(l, ch.to_digit(10).unwrap(), c.zsel.get(i).copied().unwrap_or(0), lone)).collect();
            let text = words.join(" ");
            let want = dictation_groups(&c.d).join(" ");
            let out = replace_numbers_in_text(&text, lg, 0.0);
            if out != want {
                return Err(format!("[{}] dictation of {:?}: rewrite of {:?} = {:?}, expected {:?}", l, c.d, text, out, want));
            }
            if out.replace(' ', "") != c.d {
                return Err(format!("[{}] dictation of {:?}: digits changed: {:?}", l, c.d, out));
            }
            obs.label(if c.d.len() <= 4 { "dictation<=4" } else { "dictation5-8" });
            if c.d.contains('0') {
                obs.label("dictation-with-zero");
                obs.nontrivial(&(l, &text));
            }
            obs.sample(|| json!({"lang": l, "dictated": text, "expect": want}));
            return Ok(());
        }
        if c.kind == "ordpair" || c.kind == "cardord" {
            // two ordinals below 100 said one after the other, each with its own inflection: every occurrence
            // must be a standard ordinal spelling (some inflection, some stem variant) of what it is rewritten as
            let first = if c.kind == "cardord" { Some((spell::cardinal_nk(l, c.a, &mut Bytes::new(&c.ca)), String::new())) } else { spell::ordinal(l, c.a.min(spell::ordinal_max(l)), &mut Bytes::new(&c.ca)) };
            let (Some((wa, _)), Some((wb, _))) = (first, spell::ordinal(l, c.b.min(spell::ordinal_max(l)), &mut Bytes::new(&c.cb))) else {
                obs.exclude("shape-documented-as-not-an-ordinal");
                return Ok(());
            };
            let mut w = wa.clone();
            w.extend(wb.clone());
            let text = w.join(" ");
            let (toks, occ) = scan(&text, lg, 0.0);
            let word_tok: Vec<usize> = (0..toks.len()).filter(|&i| is_word(&toks[i].text)).collect();
            if word_tok.len() != w.len() {
                return Err(format!("[{}] {:?}: the tokenizer does not return the {} words as word tokens", l, text, w.len()));
            }
            let table = rev_ord(l);
            let mut covered = vec![false; w.len()];
            for o in &occ {
                let (Some(k0), Some(k1)) = (word_tok.iter().position(|&i| i == o.start), word_tok.iter().position(|&i| i + 1 == o.end)) else {
                    return Err(format!("[{}] {:?}: occurrence {:?} does not begin and end on words", l, text, o));
                };
                for k in k0..=k1 {
                    covered[k] = true;
                }
                let phrase = norm(l, &w[k0..=k1].join(" "), false);
                let has_c = w[k0..=k1].iter().any(|x| x == spell::conjunction(l));
                let noconj_key = format!("\u{1}{}", norm(l, &w[k0..=k1].join(" "), true));
                // fr: the compound-only form `unième(s)` read on its own is rank 1 (the vocabulary lists it as the ordinal of `un`)
                let lone_unieme = l == "fr" && k0 == k1 && matches!((w[k0].as_str(), o.text.as_str()), ("unième", "1ème") | ("unièmes", "1èmes"));
                let ok = table.get(&phrase).map_or(false, |set| set.contains(&o.text))
                    || (has_c && table.get(&noconj_key).map_or(false, |set| set.contains(&o.text)))
                    || lone_unieme
                    || (!o.ord && rev(l).exact.get(&phrase).map_or(false, |set| set.contains(&(o.value() as u64))))
                    || (!o.ord && has_c && rev(l).noconj.get(&norm(l, &w[k0..=k1].join(" "), true)).map_or(false, |set| set.contains(&(o.value() as u64))));
                if !ok {
                    return Err(format!("[{}] {:?} (ordinals {} and {}): the words {:?} were rewritten as {:?} but they are not a spelling of it (inflections must agree)", l, text, c.a, c.b, w[k0..=k1].join(" "), o.text));
                }
            }
            if let Some(k) = covered.iter().position(|x| !*x) {
                // a word that is deliberately not a number on its own (es/pt lone masculine segundo) may stay
                let alone = text2num::text2digits(&w[k], lg).is_ok();
                if alone {
                    return Err(format!("[{}] {:?}: the ordinal word {:?} is in no occurrence", l, text, w[k]));
                }
                obs.exclude("ordinal-word-not-a-number-on-its-own");
                return Ok(());
            }
            obs.label(&format!("{}:{}", c.kind, if occ.len() == 1 { "one-number" } else { "two-numbers" }));
            obs.nontrivial(&(l, &text));
            obs.sample(|| json!({"lang": l, "text": text, "occurrences": occ.iter().map(|o| o.text.clone()).collect::<Vec<_>>()}));
            return Ok(());
        }
        // pairs -----------------------------------------------------------------------------------
        let cj = spell::conjunction(l);
        let (wa, wb): (Vec<String>, Vec<String>) = if c.kind == "pair-variants" {
            // ca[0] / cb[0] index the (sorted) set of all spelling variants
            let pick = |n: u64, i: usize| -> Vec<String> {
                let v: Vec<String> = spell::all_variants(l, n).into_iter().collect();
                v[i.min(v.len() - 1)].split(' ').map(|x| x.to_string()).collect()
            };
            (pick(c.a, c.ca.first().copied().unwrap_or(0) as usize), pick(c.b, c.cb.first().copied().unwrap_or(0) as usize))
        } else {
            (
                if c.ca.is_empty() { spell::cardinal(l, c.a, &mut Canon) } else { spell::cardinal(l, c.a, &mut Bytes::new(&c.ca)) },
                if c.cb.is_empty() { spell::cardinal(l, c.b, &mut Canon) } else { spell::cardinal(l, c.b, &mut Bytes::new(&c.cb)) },
            )
        };
        let mut w = wa.clone();
        if c.conj {
            w.push(cj.into());
        }
        w.extend(wb.clone());
        let text = w.join(" ");
        let out = replace_numbers_in_text(&text, lg, 0.0);
        // tokenizer pipeline with the language's annotation: words at even indices, single spaces at odd ones
        let (toks, occ) = scan(&text, lg, 0.0);
        // word k of the input is the k-th word token (robust to how the tokenizer cuts separators)
        let word_tok: Vec<usize> = (0..toks.len()).filter(|&i| is_word(&toks[i].text)).collect();
        if word_tok.len() != w.len() || word_tok.iter().zip(&w).any(|(&i, x)| &toks[i].text != x) {
            return Err(format!("[{}] {:?}: the tokenizer does not return the {} words as word tokens", l, text, w.len()));
        }
        let word_of = |tok: usize| word_tok.iter().position(|&i| i == tok);
        let r = rev(l);
        let zws = &vocab_of(l).zeros;
        let mut covered = vec![false; w.len()];
        let fail = |why: String| Err(format!("[{}] {:?} (a={} b={} conj={}) -> {:?}: {}", l, text, c.a, c.b, c.conj, out, why));
        for o in &occ {
            let (Some(k0), Some(k1)) = (word_of(o.start), if o.end > o.start { word_of(o.end - 1) } else { None }) else {
                return fail(format!("occurrence {:?} does not begin and end on words", o));
            };
            let ws = &w[k0..=k1];
            for k in k0..=k1 {
                if covered[k] {
                    return fail("a word is covered twice".into());
                }
                covered[k] = true;
            }
            let digits = o.text.trim_start_matches('0');
            let cval: u64 = if digits.is_empty() {
                0
            } else {
                match digits.parse() {
                    Ok(v) => v,
                    Err(_) => return fail(format!("non-numeric occurrence text {:?}", o.text)),
                }
            };
            let zeros = o.text.len() - digits.len();
            let lead = ws.iter().take_while(|x| zws.contains(&x.as_str())).count();
            if cval == 0 {
                if !(lead == ws.len() && o.text.len() == lead) {
                    return fail(format!("zero run mismatch: words {:?} read as {:?}", ws, o.text));
                }
                continue;
            }
            if lead != zeros {
                return fail(format!("leading zeros mismatch: words {:?} read as {:?}", ws, o.text));
            }
            let rp = ws[lead..].join(" ");
            let has_c = ws[lead..].iter().any(|x| x == cj) || rp.contains(&format!("-{}-", cj));
            let ok = r.exact.get(&norm(l, &rp, false)).map_or(false, |s| s.contains(&cval)) || (has_c && r.noconj.get(&norm(l, &rp, true)).map_or(false, |s| s.contains(&cval)));
            if !ok {
                return fail(format!("the words {:?} were read as {} but they are not a spelling of {}", rp, o.text, cval));
            }
        }
        for (k, x) in w.iter().enumerate() {
            if !covered[k] && x != cj {
                if toks[word_tok[k]].nan && l == "fr" && x == "neuf" {
                    // set aside by the documented new/nine heuristic
                    obs.exclude("fr-neuf-heuristic-set-aside");
                    return Ok(());
                }
                return fail(format!("the word {:?} is in no occurrence", x));
            }
        }
        // the rewrite must carry exactly those occurrences (no digits lost between scan and rewrite)
        let nums: Vec<&str> = out.split(' ').filter(|t| t.chars().next().map_or(false, |ch| ch.is_ascii_digit())).collect();
        if nums != occ.iter().map(|o| o.text.as_str()).collect::<Vec<_>>() {
            return fail(format!("rewrite and scan disagree: occurrences {:?}", occ));
        }
        let sep = if c.conj { format!(" {} ", cj) } else { " ".into() };
        let literal = out == format!("{}{}{}", c.a, sep, c.b) || out.parse::<u64>().is_ok();
        obs.label(if literal { "outcome:both-or-single" } else { "outcome:other-valid-segmentation" });
        obs.label_if(c.conj, "joiner-conjunction");
        obs.label_if(!c.ca.is_empty() || !c.cb.is_empty(), "non-canonical-variants");
        let guard_case = (c.a % 10 == 0 && c.a >= 20 && c.b < 20) || c.b < 10;
        if guard_case {
            obs.label("guard-decides(b could be added arithmetically)");
            obs.nontrivial(&(l, &text));
        }
        obs.sample(|| json!({"lang": l, "text": text, "output": out}));
        Ok(())
    }
}
