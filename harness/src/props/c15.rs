//! C15 Token-stream contract: lazy and batch search agree, token hints are honoured.
use crate::engine::*;
use crate::gen::*;
use crate::util::*;
use proptest::prelude::*;
use serde::{Deserialize, Serialize};
use serde_json::json;
use std::cell::Cell;
use text2num::{find_numbers, find_numbers_iter};

#[derive(Clone, Debug, Hash, Serialize, Deserialize)]
pub struct Case {
    pub lang: String,
    /// (text, separated-from-predecessor hint, not-a-number-part hint)
    pub tokens: Vec<(String, bool, bool)>,
    pub th_bits: u64,
    /// the token list is repeated this many times (long streams for the laziness clause)
    pub repeat: u32,
    /// per token: carry the separation hint as a pause recorded on the predecessor (read through the
    /// `previous` argument of nt_separated) instead of a flag on the token itself
    #[serde(default)]
    pub via_prev: Vec<bool>,
}
pub struct C15;

fn build(c: &Case) -> Vec<Tk> {
    let mut v = vec![];
    for _ in 0..c.repeat.max(1) {
        for (text, _, nan) in &c.tokens {
            let mut t = Tk::new(v.len(), text);
            if !scanner_skips(text) {
                t.nan = *nan;
            }
            v.push(t);
        }
    }
    let n = c.tokens.len().max(1);
    for i in 0..v.len() {
        let (text, sep, _) = &c.tokens[i % n];
        if *sep && !scanner_skips(text) {
            set_sep(&mut v, i, true, c.via_prev.get(i % n).copied().unwrap_or(false));
        }
    }
    v
}

/// an input iterator whose size_hint is valid but says nothing
struct LooseHint<I>(I, Option<usize>);
impl<I: Iterator> Iterator for LooseHint<I> {
    type Item = I::Item;
    fn next(&mut self) -> Option<I::Item> {
        self.0.next()
    }
    fn size_hint(&self) -> (usize, Option<usize>) {
        (0, self.1)
    }
}

impl Property for C15 {
    type Input = Case;
    fn id(&self) -> &'static str {
        "C15"
    }
    fn rule(&self) -> String {
        "Generated: own-token streams of 0..14 tokens (number words of every class, speller phrases, ordinals, conjunction / separator / linking / ordinary words, punctuation and whitespace tokens; one stream in four without any whitespace token, so that occurrences can be directly adjacent), optionally repeated up to 40 times, with per-token 'separated from predecessor' hints (carried either as a flag on the token or as a pause recorded on the preceding token and read through the `previous` argument of nt_separated) and 'not a number part' hints placed only on tokens the scanner looks at (never on whitespace-only or bare '-' tokens) and forced, in half of the cases, onto a token inside what would otherwise be one number (incl. right after a conjunction or separator word); any threshold. Oracle: (1) collect(find_numbers_iter) == find_numbers, two more next() calls after None return None, and fold / for_each / count / last / nth+rest / nth and skip beyond the end / step_by / peekable / size_hint (also over an input whose own size_hint is (0, Some(usize::MAX)) or (0, None), asked before and after every step) agree with it, and two lazy searches over the same tokens advanced alternately (the second with threshold 0) give the two batch results; hyphenated words are sometimes given as separate tokens with a bare '-' between them; (2) laziness with a counting adaptor on the input: nothing is consumed before the first next(); when the k-th occurrence is yielded, the number of tokens consumed is <= the end of the (k+2)-th occurrence of the batch result when that exists; (3) for every hinted token i with predecessor j (previous non-skipped token): no occurrence contains both; and the stream with that hint cleared and a ',' token inserted before i yields the same occurrences after index mapping; (4) no occurrence contains a token flagged 'not a number part'. Non-trivial = distinct streams where a hint falls inside what the unhinted stream reads as one number, or with >= 4 occurrences (needed for the look-ahead bound).".into()
    }
    fn assumptions(&self) -> Vec<String> {
        vec!["hints are generated on tokens the scanner examines only: whitespace-only and bare '-' tokens are dropped before hints are read, and no real annotator flags them".into()]
    }
    fn strategy(&self, _tier: Tier) -> BoxedStrategy<Case> {
        (sentence_strategy(Mode::Clean, 8), proptest::collection::vec(any::<u8>(), 0..40), threshold_strategy(), prop_oneof![6 => Just(1u32), 1 => 2u32..40], any::<u8>(), any::<u16>(), proptest::collection::vec(any::<bool>(), 0..40))
            .prop_map(|((lang, sent), hints, th_bits, repeat, force, pos, via_prev)| {
                // one token per item; whitespace joins become their own tokens (like the tokenizer's output)
                let mut tokens: Vec<(String, bool, bool)> = vec![];
                for (n_it, it) in sent.items.iter().enumerate() {
                    // a caller-built stream may carry the hyphen of a compound as its own token
                    if it.text.contains('-') && it.text.len() > 1 && (force as usize + n_it) % 3 == 0 {
                        for (j, part) in it.text.split('-').enumerate() {
                            if j > 0 {
                                tokens.push(("-".to_string(), false, false));
                            }
                            if !part.is_empty() {
                                tokens.push((part.to_string(), false, false));
                            }
                        }
                        if !it.join.is_empty() {
                            tokens.push((it.join.clone(), false, false));
                        }
                        continue;
                    }
                    tokens.push((it.text.clone(), false, false));
                    if !it.join.is_empty() {
                        tokens.push((it.join.clone(), false, false));
                    }
                }
                // one stream in four is what a speech recogniser hands over: no whitespace tokens at all, so that
                // two occurrences can be directly adjacent (end == next start)
                if force & 0xC0 == 0xC0 {
                    tokens.retain(|t| !is_ws(&t.0));
                }
                for (i, t) in tokens.iter_mut().enumerate() {
                    let h = hints.get(i).copied().unwrap_or(0);
                    t.1 = h & 0x0f == 1;
                    t.2 = h >> 4 == 1;
                }
                // force a hint inside a number of the unhinted stream
                if force < 128 && !tokens.is_empty() {
                    let plain: Vec<Tk> = tokens.iter().enumerate().map(|(i, t)| Tk::new(i, &t.0)).collect();
                    // (generation must not die if the library panics on this stream: that is for the check to report)
                    let occ = std::panic::catch_unwind(std::panic::AssertUnwindSafe(|| find_numbers(plain.iter(), lang_ref(&lang), 0.0))).unwrap_or_default();
                    let inner: Vec<usize> = occ.iter().flat_map(|o| (o.start + 1..o.end).collect::<Vec<_>>()).filter(|&i| !scanner_skips(&tokens[i].0)).collect();
                    if !inner.is_empty() {
                        let i = inner[idx(pos, inner.len())];
                        if force & 1 == 0 {
                            tokens[i].1 = true
                        } else {
                            tokens[i].2 = true
                        }
                    }
                }
                Case { lang, tokens, th_bits, repeat, via_prev }
            })
            .boxed()
    }
    fn cases(&self, tier: Tier) -> u64 {
        tier.pick(1_500_000, 20_000_000)
    }
    fn check(&self, c: &Case, obs: &mut Obs) -> Result<(), String> {
        let lg = lang(&c.lang);
        let th = th_of(c.th_bits);
        let stream = build(c);
        let n = stream.len();
        let show = |o: &[Occ]| o.iter().map(|x| format!("[{},{}){:?}", x.start, x.end, x.text)).collect::<Vec<_>>().join(" ");
        let texts = || stream.iter().map(|t| format!("{}{}{}{}", t.text, if t.sep { if t.via_prev { "<sep:pause-on-predecessor>" } else { "<sep>" } } else { "" }, if t.nan { "<nan>" } else { "" }, if t.pause_after { "<pause-after>" } else { "" })).collect::<Vec<_>>();
        let batch = occs(find_numbers(stream.iter(), lg, th));
        // (1) + (2)
        let consumed = Cell::new(0usize);
        let counting = stream.iter().inspect(|_| consumed.set(consumed.get() + 1));
        let mut it = find_numbers_iter(counting, lg, th);
        if consumed.get() != 0 {
            return Err(format!("[{}] the lazy iterator consumed {} tokens before the first request", c.lang, consumed.get()));
        }
        let mut lazy = vec![];
        let mut k = 0usize;
        while let Some(o) = it.next() {
            if let Some(b2) = batch.get(k + 2) {
                if consumed.get() > b2.end {
                    return Err(format!("[{}] look-ahead not bounded: when occurrence #{} was yielded {} of {} tokens had been consumed, beyond the end ({}) of the second number after it\n stream {:?}\n batch {}", c.lang, k, consumed.get(), n, b2.end, texts(), show(&batch)));
                }
                obs.label("look-ahead-bound-checked");
            }
            lazy.push(o);
            k += 1;
        }
        if it.next().is_some() || it.next().is_some() {
            return Err(format!("[{}] the lazy iterator yields again after it ended (stream {:?})", c.lang, texts()));
        }
        let lazy = occs(lazy);
        // the other ways of driving an iterator must give the same occurrences: internal iteration
        // (fold / for_each / count / last), nth, by_ref + resume; size_hint must not lie
        {
            let folded = occs(find_numbers_iter(stream.iter(), lg, th).fold(vec![], |mut v, o| {
                v.push(o);
                v
            }));
            if folded != batch {
                return Err(format!("[{}] th={}: fold over the lazy iterator differs from batch\n stream {:?}\n batch {}\n fold  {}", c.lang, fmt_th(c.th_bits), texts(), show(&batch), show(&folded)));
            }
            let cnt = find_numbers_iter(stream.iter(), lg, th).count();
            let last = find_numbers_iter(stream.iter(), lg, th).last().map(|o| o.text);
            if cnt != batch.len() || last != batch.last().map(|o| o.text.clone()) {
                return Err(format!("[{}] th={}: count()/last() on the lazy iterator give {} / {:?}, batch has {} occurrences ending with {:?}\n stream {:?}", c.lang, fmt_th(c.th_bits), cnt, last, batch.len(), batch.last().map(|o| o.text.clone()), texts()));
            }
            let mut each = vec![];
            find_numbers_iter(stream.iter(), lg, th).for_each(|o| each.push(o));
            if occs(each) != batch {
                return Err(format!("[{}] for_each over the lazy iterator differs from batch (stream {:?})", c.lang, texts()));
            }
            if !batch.is_empty() {
                let k = batch.len() / 2;
                let mut it = find_numbers_iter(stream.iter(), lg, th);
                let (lo, hi) = it.size_hint();
                if lo > batch.len() || hi.map_or(false, |h| h < batch.len()) {
                    return Err(format!("[{}] size_hint {:?} excludes the actual number of occurrences {}", c.lang, (lo, hi), batch.len()));
                }
                let nth = it.nth(k).map(|o| o.text);
                let rest: Vec<String> = it.by_ref().map(|o| o.text).collect();
                let want_rest: Vec<String> = batch[k + 1..].iter().map(|o| o.text.clone()).collect();
                if nth != Some(batch[k].text.clone()) || rest != want_rest {
                    return Err(format!("[{}] nth({}) then the rest give {:?} + {:?}, batch {}\n stream {:?}", c.lang, k, nth, rest, show(&batch), texts()));
                }
            }
            // paging beyond the end yields nothing
            for extra in [0usize, 1, 3] {
                let n = batch.len() + extra;
                if let Some(o) = find_numbers_iter(stream.iter(), lg, th).nth(n) {
                    return Err(format!("[{}] nth({}) on {} occurrences returned {:?}\n stream {:?}", c.lang, n, batch.len(), o.text, texts()));
                }
                let rest: Vec<String> = find_numbers_iter(stream.iter(), lg, th).skip(n).map(|o| o.text).collect();
                if !rest.is_empty() {
                    return Err(format!("[{}] skip({}) on {} occurrences left {:?}\n stream {:?}", c.lang, n, batch.len(), rest, texts()));
                }
            }
            if batch.len() >= 2 {
                let got: Vec<String> = find_numbers_iter(stream.iter(), lg, th).skip(batch.len() - 1).map(|o| o.text).collect();
                if got != vec![batch[batch.len() - 1].text.clone()] {
                    return Err(format!("[{}] skip({}) should leave the last occurrence, got {:?}\n stream {:?}", c.lang, batch.len() - 1, got, texts()));
                }
            }
            // adaptors: step_by (drives nth), peekable (look at an occurrence before taking it), and two searches
            // over the same tokens advanced alternately (nothing may be shared between two live iterators)
            let stepped: Vec<String> = find_numbers_iter(stream.iter(), lg, th).step_by(2).map(|o| o.text).collect();
            let want: Vec<String> = batch.iter().step_by(2).map(|o| o.text.clone()).collect();
            if stepped != want {
                return Err(format!("[{}] step_by(2) over the lazy iterator gives {:?}, batch {}
 stream {:?}", c.lang, stepped, show(&batch), texts()));
            }
            let mut pk = find_numbers_iter(stream.iter(), lg, th).peekable();
            let mut seen = vec![];
            while let Some(p) = pk.peek().map(|o| o.text.clone()) {
                let o = pk.next().unwrap();
                if o.text != p {
                    return Err(format!("[{}] peek() showed {:?}, next() returned {:?}", c.lang, p, o.text));
                }
                seen.push(o);
            }
            if occs(seen) != batch {
                return Err(format!("[{}] a peekable lazy search differs from batch (stream {:?})", c.lang, texts()));
            }
            let other = occs(find_numbers(stream.iter(), lg, 0.0));
            let (mut a, mut b) = (find_numbers_iter(stream.iter(), lg, th), find_numbers_iter(stream.iter(), lg, 0.0));
            let (mut ra, mut rb) = (vec![], vec![]);
            loop {
                let (x, y) = (a.next(), b.next());
                if x.is_none() && y.is_none() {
                    break;
                }
                ra.extend(x);
                rb.extend(y);
            }
            if occs(ra) != batch || occs(rb) != other {
                return Err(format!("[{}] th={}: two lazy searches over the same tokens, advanced alternately (the second with threshold 0), do not give the two batch results
 stream {:?}", c.lang, fmt_th(c.th_bits), texts()));
            }
            // an input whose size_hint is valid but loose ((0, Some(usize::MAX)) or (0, None), as a channel or
            // a hand-written feed reports): size_hint is asked before and after every step and must bracket what
            // is still to come; collect() (which reserves from size_hint) must give the batch result
            for upper in [Some(usize::MAX), None, Some(usize::MAX - 1)] {
                let mut it = find_numbers_iter(LooseHint(stream.iter(), upper), lg, th);
                let mut left = batch.len();
                loop {
                    let (lo, hi) = it.size_hint();
                    if lo > left || hi.map_or(false, |h| h < left) {
                        return Err(format!("[{}] size_hint {:?} with {} occurrences still to come (input size_hint (0, {:?}))\n stream {:?}", c.lang, (lo, hi), left, upper, texts()));
                    }
                    if it.next().is_none() {
                        break;
                    }
                    left = left.saturating_sub(1);
                }
                let all: Vec<_> = find_numbers_iter(LooseHint(stream.iter(), upper), lg, th).collect();
                if occs(all) != batch {
                    return Err(format!("[{}] collect() over an input with size_hint (0, {:?}) differs from batch (stream {:?})", c.lang, upper, texts()));
                }
            }
            obs.label("iterator-protocol-checked");
        }
        if lazy != batch {
            return Err(format!("[{}] th={}: lazy and batch search differ\n stream {:?}\n batch {}\n lazy  {}", c.lang, fmt_th(c.th_bits), texts(), show(&batch), show(&lazy)));
        }
        // (4)
        for o in &batch {
            if let Some(i) = (o.start..o.end.min(n)).find(|&i| stream[i].nan) {
                return Err(format!("[{}] token {} {:?} declares itself not a number part but lies inside {:?}\n stream {:?}", c.lang, i, stream[i].text, o.text, texts()));
            }
        }
        // (3)
        let sig: Vec<usize> = (0..n).filter(|&i| !scanner_skips(&stream[i].text)).collect();
        let mut hinted_inside = false;
        for (p, &i) in sig.iter().enumerate() {
            if !stream[i].sep || p == 0 {
                continue;
            }
            let j = sig[p - 1];
            if let Some(o) = batch.iter().find(|o| o.start <= j && i < o.end) {
                return Err(format!("[{}] token {} {:?} declares itself separated from its predecessor {:?} but both lie in the occurrence {:?}\n stream {:?}", c.lang, i, stream[i].text, stream[j].text, o.text, texts()));
            }
            // hint == spoken comma (only checked on unrepeated streams: one hint at a time)
            if c.repeat <= 1 {
                let mut cleared = stream.clone();
                set_sep(&mut cleared, i, false, false);
                let mut alt: Vec<Tk> = vec![];
                for (q, t) in cleared.iter().enumerate() {
                    if q == i {
                        alt.push(Tk::new(0, ","));
                    }
                    alt.push(t.clone());
                }
                let alt_occ: Vec<Occ> = occs(find_numbers(alt.iter(), lg, th))
                    .into_iter()
                    .map(|mut o| {
                        // map indices back: positions after the inserted comma shift by one
                        if o.start > i {
                            o.start -= 1;
                        }
                        if o.end > i {
                            o.end -= 1;
                        }
                        o
                    })
                    .collect();
                if alt_occ != batch {
                    return Err(format!(
                        "[{}] th={}: a 'separated' hint on token {} {:?} does not behave like a spoken comma\n stream {:?}\n with hint  {}\n with comma {}",
                        c.lang,
                        fmt_th(c.th_bits),
                        i,
                        stream[i].text,
                        texts(),
                        show(&batch),
                        show(&alt_occ)
                    ));
                }
                obs.label("hint==comma-checked");
            }
        }
        // classification: does a hint fall inside a number of the unhinted stream?
        let plain: Vec<Tk> = stream.iter().map(|t| Tk::new(0, &t.text)).collect();
        let base = occs(find_numbers(plain.iter(), lg, 0.0));
        for o in &base {
            for i in o.start + 1..o.end.min(n) {
                if stream[i].sep {
                    hinted_inside = true;
                    obs.label("sep-hint-inside-a-number");
                    if i >= 2 && sig.contains(&i) {
                        let pos = sig.iter().position(|&x| x == i).unwrap();
                        if pos > 0 {
                            let prev = stream[sig[pos - 1]].lower.as_str();
                            let v = vocab_of(&c.lang);
                            obs.label_if(prev == v.conj, "sep-hint-right-after-conjunction");
                            obs.label_if(prev == v.sep, "sep-hint-right-after-decimal-separator");
                        }
                    }
                }
                if stream[i].nan {
                    hinted_inside = true;
                    obs.label("nan-hint-inside-a-number");
                }
            }
            if stream[o.start].nan {
                obs.label("nan-hint-on-first-word-of-a-number");
            }
        }
        obs.label(match batch.len() {
            0 => "occurrences=0",
            1..=3 => "occurrences=1-3",
            _ => "occurrences>=4",
        });
        obs.label_if(c.repeat > 1, "repeated-long-stream");
        obs.label_if(batch.windows(2).any(|w| w[0].end == w[1].start), "adjacent-occurrences(no-gap-stream)");
        if hinted_inside || batch.len() >= 4 {
            obs.nontrivial(&(&c.lang, &c.tokens, c.th_bits, c.repeat));
        }
        obs.sample(|| json!({"lang": c.lang, "stream": texts().into_iter().take(30).collect::<Vec<_>>(), "repeat": c.repeat, "threshold": fmt_th(c.th_bits), "occurrences": show(&batch)}));
        Ok(())
    }
}
fn lang_ref(code: &str) -> &'static text2num::Language {
    lang(code)
}
