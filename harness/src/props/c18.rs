//! C18 English 'o' is read as zero only next to another number word.
use crate::engine::*;
use crate::gen::*;
use crate::util::*;
use proptest::prelude::*;
use serde::{Deserialize, Serialize};
use serde_json::json;
use text2num::{replace_numbers_in_text, text2digits};

#[derive(Clone, Debug, Hash, Serialize, Deserialize)]
pub struct Case {
    pub text: String,
    pub th_bits: u64,
}
pub struct C18;

const NEIGHBOURS: [&str; 22] = ["", "five", "twenty", "hundred", "third", "twenty-one", "zero", "o", "O", "point", "and", "house", "a", "o'clock", ",", ".", "-", "(", "!", "...", "'", "thirty"];

/// the reference rule on the raw tokens: returns the text with zero-like `o` -> zero, other `o` -> xq
pub fn reference_rewrite(text: &str) -> (String, usize, usize) {
    let en = lang("en");
    let raw = tokens_of(text);
    let sig: Vec<usize> = (0..raw.len()).filter(|&i| !is_ws(&raw[i].text)).collect();
    let is_num = |i: usize| text2digits(&raw[i].text, en).is_ok();
    let mut out = String::new();
    let mut repl: Vec<Option<&str>> = vec![None; raw.len()];
    let (mut nz, mut nw) = (0, 0);
    for (j, &i) in sig.iter().enumerate() {
        if raw[i].lowercase == "o" {
            let z = (j > 0 && is_num(sig[j - 1])) || (j + 1 < sig.len() && is_num(sig[j + 1]));
            repl[i] = Some(if z { "zero" } else { "xq" });
            if z {
                nz += 1
            } else {
                nw += 1
            }
        }
    }
    for (i, x) in raw.iter().enumerate() {
        out.push_str(repl[i].unwrap_or(x.text.as_str()));
    }
    (out, nz, nw)
}

impl Property for C18 {
    type Input = Case;
    fn id(&self) -> &'static str {
        "C18"
    }
    fn rule(&self) -> String {
        "Reference rule + metamorphic. Generated: English sentences from the clean/dirty generator with `o`/`O` injected at text start, end, between items, doubled, next to punctuation, next to `point`, next to number words and hyphenated compounds, joined by all kinds of whitespace (incl. NBSP, thin space, tab, newline); any threshold. Reference rule on the raw tokens: an `o` is zero-like iff the nearest non-whitespace token before or after it is a number word (text2digits(token) is Ok; another `o` counts, punctuation does not). Oracle: with s' = s where zero-like `o` -> `zero` and every other `o` -> the ordinary word `xq`: occurrences(s, t) == occurrences(s', t) token for token (span, text, value, flag), and rewrite(s, t) equals the splice of s's own tokens with those occurrences (every non-zero-like `o` stays verbatim). Enumerated: every (left, o | o o, right) over 22 neighbour classes x joiners {' ', NBSP, '  '} x thresholds {0, 10}. Non-trivial = distinct sentences with an `o` whose two neighbours differ in kind (one a number word, the other not).".into()
    }
    fn exhaustive_subdomains(&self, _tier: Tier) -> Vec<String> {
        vec!["left x {o, o o, O} x right over 22 neighbour classes (number words, ordinals, compounds, zero words, separator/conjunction, ordinary words, punctuation, text boundary) x 3 joiners x thresholds {0,10}".into()]
    }
    fn strategy(&self, _tier: Tier) -> BoxedStrategy<Case> {
        let sp = || prop_oneof![6 => Just(" "), 1 => Just("\u{a0}"), 1 => Just("\t"), 1 => Just("  "), 1 => Just("\u{2009}"), 1 => Just("\n")];
        let item = prop_oneof![
            4 => prop_oneof![Just("o".to_string()), Just("O".to_string())],
            6 => (any::<u16>(), any::<u16>()).prop_map(|(a, b)| {
                let v = vocab_of("en");
                let c = &v.classes[idx(a, v.classes.len())];
                c[idx(b, c.len())].clone()
            }),
            3 => any::<u16>().prop_map(|a| {
                let v = vocab_of("en");
                v.fillers[idx(a, v.fillers.len())].to_string()
            }),
            1 => any::<u16>().prop_map(|a| {
                let v = vocab_of("en");
                v.linking[idx(a, v.linking.len())].to_string()
            }),
            1 => Just("point".to_string()),
            1 => Just("and".to_string()),
            2 => (0usize..crate::spell::vocab::PUNCT.len()).prop_map(|i| crate::spell::vocab::PUNCT[i].to_string()),
            1 => (num_strategy(100_000), choices()).prop_map(|(n, ch)| crate::spell::cardinal("en", n, &mut crate::choose::Bytes::new(&ch)).join(" ")),
        ];
        let built = (proptest::collection::vec((item, sp(), 0u8..10), 1..9), threshold_strategy()).prop_map(|(items, th_bits)| {
            let mut s = String::new();
            for (w, j, glue) in items {
                let is_punct = !w.chars().any(|c| c.is_alphanumeric());
                if is_punct && glue < 5 && s.ends_with(|c: char| c.is_whitespace()) {
                    // punctuation usually sticks to the previous word
                    while s.ends_with(|c: char| c.is_whitespace()) {
                        s.pop();
                    }
                }
                s.push_str(&w);
                s.push_str(if glue == 7 { "" } else if glue == 6 && !is_punct { "-" } else { j });
            }
            Case { text: s, th_bits }
        });
        let from_gen = (sentence_for("en".to_string(), Mode::Dirty, 8), threshold_strategy()).prop_map(|(s, th_bits)| Case { text: s.render(), th_bits });
        prop_oneof![5 => built, 1 => from_gen].boxed()
    }
    fn cases(&self, tier: Tier) -> u64 {
        tier.pick(3_000_000, 30_000_000)
    }
    fn enumerate(&self, _tier: Tier, shard: usize, nshards: usize, emit: &mut Emit<Case>) {
        let n = NEIGHBOURS.len() as u64;
        let mids = ["o", "o o", "O"];
        let joins = [" ", "\u{a0}", "  "];
        for i in shard_range(n * n * 3 * 3 * 2, shard, nshards) {
            let l = NEIGHBOURS[(i % n) as usize];
            let r = NEIGHBOURS[(i / n % n) as usize];
            let m = mids[(i / (n * n) % 3) as usize];
            let j = joins[(i / (n * n * 3) % 3) as usize];
            let th = if i / (n * n * 9) == 0 { 0.0f64 } else { 10.0 };
            let mut s = String::new();
            if !l.is_empty() {
                s.push_str(l);
                s.push_str(j);
            }
            s.push_str(&m.replace(' ', j));
            if !r.is_empty() {
                s.push_str(j);
                s.push_str(r);
            }
            if !emit(Case { text: s, th_bits: th.to_bits() }) {
                return;
            }
        }
    }
    fn check(&self, c: &Case, obs: &mut Obs) -> Result<(), String> {
        let en = lang("en");
        let th = th_of(c.th_bits);
        let s = &c.text;
        let (s2, nz, nw) = reference_rewrite(s);
        if nz + nw == 0 {
            obs.label("no-o-token");
            return Ok(());
        }
        let (t1, o1) = scan(s, en, th);
        let (t2, o2) = scan(&s2, en, th);
        if t1.len() != t2.len() {
            return Err(format!("internal: substitution changed the tokenisation of {:?} / {:?}", s, s2));
        }
        if o1 != o2 {
            return Err(format!("threshold {}: `o` is not treated like `zero` next to a number word / like an ordinary word elsewhere\n {:?} -> {:?}\n {:?} -> {:?}", fmt_th(c.th_bits), s, o1, s2, o2));
        }
        let out = replace_numbers_in_text(s, en, th);
        let want = splice(&t1, &o2);
        if out != want {
            return Err(format!("threshold {}: rewrite of {:?} = {:?}, expected {:?}", fmt_th(c.th_bits), s, out, want));
        }
        obs.label_if(nz > 0, "zero-like-o");
        obs.label_if(nw > 0, "word-like-o");
        // neighbours of different kinds
        let raw = tokens_of(s);
        let sig: Vec<usize> = (0..raw.len()).filter(|&i| !is_ws(&raw[i].text)).collect();
        let mut mixed = false;
        for (j, &i) in sig.iter().enumerate() {
            if raw[i].lowercase == "o" {
                let l = j > 0 && text2digits(&raw[sig[j - 1]].text, en).is_ok();
                let r = j + 1 < sig.len() && text2digits(&raw[sig[j + 1]].text, en).is_ok();
                if l != r {
                    mixed = true;
                }
                if j > 0 && !is_word(&raw[sig[j - 1]].text) || j + 1 < sig.len() && !is_word(&raw[sig[j + 1]].text) {
                    obs.label("o-next-to-punctuation");
                }
                if j == 0 || j + 1 == sig.len() {
                    obs.label("o-at-text-boundary");
                }
            }
        }
        obs.label_if(mixed, "o-with-neighbours-of-different-kinds");
        obs.label_if(!s.is_ascii(), "non-ascii-whitespace-or-text");
        if mixed {
            obs.nontrivial(&(s, c.th_bits));
        }
        obs.sample(|| json!({"text": s, "reference": s2, "threshold": fmt_th(c.th_bits), "output": out}));
        Ok(())
    }
}
