//! C16 Leading zeros are kept, and zeros never attach after a number.
use super::c01::roundtrip_ex;
use super::ctx::context;
use crate::choose::{Bytes, Canon};
use crate::engine::*;
use crate::gen::*;
use crate::spell;
use crate::util::*;
use proptest::prelude::*;
use serde::{Deserialize, Serialize};
use serde_json::json;
use text2num::{replace_numbers_in_text, text2digits};

#[derive(Clone, Debug, Hash, Serialize, Deserialize)]
pub struct Case {
    pub lang: String,
    /// 0: zero^k spell(n); 1: spell(n) zero; 2: lone zero
    pub shape: u8,
    pub k: u8,
    pub n: u64,
    pub choices: Vec<u8>,
    /// selects the zero word where the language has several (en zero|o|nought)
    pub zsel: Vec<u8>,
    pub prefix: String,
    pub suffix: String,
}
pub struct C16;

fn zero_word(lang: &str, sel: u8) -> &'static str {
    let z = &vocab_of(lang).zeros;
    z[(sel as usize * z.len()) >> 8]
}
fn scale_sensitive_first(lang: &str, w: &str) -> bool {
    let w = w.to_lowercase();
    match lang {
        "en" => ["one", "hundred", "thousand", "million", "billion"].iter().any(|x| w.starts_with(x)),
        "fr" => ["un", "cent", "mille", "mil", "million", "milliard"].iter().any(|x| w == *x || w.starts_with(&format!("{}-", x))),
        "es" => ["un", "uno", "una", "cien", "ciento", "mil"].contains(&w.as_str()),
        "pt" => ["um", "uma", "cem", "cento", "mil"].contains(&w.as_str()),
        "it" => w.starts_with("un") || w.starts_with("cento") || w.starts_with("mille"),
        "de" => w.starts_with("ein") || w.starts_with("hundert") || w.starts_with("tausend"),
        "nl" => w.starts_with("een") || w.starts_with("één") || w.starts_with("honderd") || w.starts_with("duizend"),
        _ => false,
    }
}

impl Property for C16 {
    type Input = Case;
    fn id(&self) -> &'static str {
        "C16"
    }
    fn rule(&self) -> String {
        "Reference-speller oracle. Generated: (language, shape, k in 0..=6, n in [1,10^9) (one case in four up to 10^12), variant choice bytes, zero-word selectors, prefix, suffix). Shape 0: k zero words followed by spell(n): text2digits == Ok('0'^k ++ decimal(n)); in a sentence at threshold 0 exactly one occurrence covering the whole phrase with that text and value n; rewrite == prefix text suffix. Shape 1: spell(n) followed by a zero word is rewritten 'n 0' (a zero after a non-zero number starts a new numeral). Shape 2: a lone zero word is the numeral 0 (validated and rewritten). Enumerated: k in 0..=6 x every n < 2000 and every g*1000^j (g in the boundary pool, j in 1..=2), canonical spelling, per language; shape 1 for every n < 2000. Non-trivial = distinct shape-0 cases with k >= 1 whose first number word is scale-sensitive (one/un/een..., hundred, thousand ...), plus all shape-1 cases.".into()
    }
    fn assumptions(&self) -> Vec<String> {
        vec!["en `o` is used as a leading zero only with k >= 1 followed by a number word (C18 makes it a zero there)".into()]
    }
    fn exhaustive_subdomains(&self, _tier: Tier) -> Vec<String> {
        vec!["k in 0..=6 x (every n in 1..2000 and g*1000^j) x 7 languages, canonical spelling, no context".into(), "spell(n) zero for every n in 1..2000 x 7 languages".into()]
    }
    fn strategy(&self, _tier: Tier) -> BoxedStrategy<Case> {
        lang_strategy()
            .prop_flat_map(|lang| {
                let l2 = lang.clone();
                (
                    prop_oneof![8 => Just(0u8), 3 => Just(1u8), 1 => Just(2u8)],
                    0u8..=6,
                    prop_oneof![3 => num_strategy(1_000_000_000), 1 => num_strategy(1_000_000_000_000)],
                    choices(),
                    proptest::collection::vec(any::<u8>(), 0..7),
                    prop_oneof![1 => Just((String::new(), String::new())), 2 => context(lang, true)],
                )
                    .prop_map(move |(shape, k, n, choices, zsel, (prefix, suffix))| Case { lang: l2.clone(), shape, k, n: n.max(1), choices, zsel, prefix, suffix })
            })
            .boxed()
    }
    fn cases(&self, tier: Tier) -> u64 {
        tier.pick(3_000_000, 30_000_000)
    }
    fn enumerate(&self, _tier: Tier, shard: usize, nshards: usize, emit: &mut Emit<Case>) {
        let mut ns: Vec<u64> = (1..2000).collect();
        for g in POOL {
            for j in 1..=3u32 {
                if g > 0 {
                    ns.push(g as u64 * 1000u64.pow(j));
                }
            }
        }
        ns.sort();
        ns.dedup();
        for i in shard_range(ns.len() as u64 * 7 * 7, shard, nshards) {
            let lang = LANGS[(i % 7) as usize];
            let k = ((i / 7) % 7) as u8;
            let n = ns[(i / 49) as usize];
            if !emit(Case { lang: lang.to_string(), shape: 0, k, n, choices: vec![], zsel: vec![], prefix: String::new(), suffix: String::new() }) {
                return;
            }
        }
        for i in shard_range(1999 * 7, shard, nshards) {
            let lang = LANGS[(i % 7) as usize];
            if !emit(Case { lang: lang.to_string(), shape: 1, k: 0, n: 1 + i / 7, choices: vec![], zsel: vec![], prefix: String::new(), suffix: String::new() }) {
                return;
            }
        }
    }
    fn check(&self, c: &Case, obs: &mut Obs) -> Result<(), String> {
        let lg = lang(&c.lang);
        let tag = format!("[{} shape={} k={} n={} choices {:?}]", c.lang, c.shape, c.k, c.n, c.choices);
        let num = if c.choices.is_empty() { spell::cardinal_nk(&c.lang, c.n, &mut Canon) } else { spell::cardinal_nk(&c.lang, c.n, &mut Bytes::new(&c.choices)) };
        match c.shape {
            0 => {
                let mut words: Vec<String> = (0..c.k).map(|i| zero_word(&c.lang, c.zsel.get(i as usize).copied().unwrap_or(0)).to_string()).collect();
                words.extend(num.iter().cloned());
                let expect = format!("{}{}", "0".repeat(c.k as usize), c.n);
                let allow = c.lang == "fr" && words.iter().any(|w| w == "neuf");
                let ran = roundtrip_ex(&c.lang, &words, &expect, c.n as f64, false, &c.prefix, &c.suffix, allow, true).map_err(|e| format!("{} {}", tag, e))?;
                if !ran {
                    obs.exclude("fr-neuf-heuristic-set-aside");
                    return Ok(());
                }
                obs.label(&format!("k={}", c.k));
                let sens = scale_sensitive_first(&c.lang, &num[0]);
                obs.label_if(c.k >= 1 && sens, "zeros-before-scale-sensitive-word");
                if c.k >= 1 && sens {
                    obs.nontrivial(&(&c.lang, &words));
                }
                obs.sample(|| json!({"lang": c.lang, "text": format!("{}{}{}", c.prefix, words.join(" "), c.suffix), "expect": expect}));
            }
            1 => {
                let z = zero_word(&c.lang, c.zsel.first().copied().unwrap_or(0));
                let text = format!("{}{} {}{}", c.prefix, num.join(" "), z, c.suffix);
                let want = format!("{}{} 0{}", c.prefix, c.n, c.suffix);
                if neuf_set_aside(&c.lang, &text) {
                    obs.exclude("fr-neuf-heuristic-set-aside");
                    return Ok(());
                }
                let out = replace_numbers_in_text(&text, lg, 0.0);
                if out != want {
                    return Err(format!("{} zero after a number: rewrite of {:?} = {:?}, expected {:?}", tag, text, out, want));
                }
                obs.label("zero-after-number");
                obs.nontrivial(&(&c.lang, &text));
                obs.sample(|| json!({"lang": c.lang, "text": text, "expect": want}));
            }
            _ => {
                let z = zero_word(&c.lang, c.zsel.first().copied().unwrap_or(0));
                let z = if z == "o" { "zero" } else { z };
                let v = text2digits(z, lg);
                if v.as_deref().ok() != Some("0") {
                    return Err(format!("{} text2digits({:?}) = {:?}, expected Ok(\"0\")", tag, z, v));
                }
                let text = format!("{}{}{}", c.prefix, z, c.suffix);
                let want = format!("{}0{}", c.prefix, c.suffix);
                if neuf_set_aside(&c.lang, &text) {
                    obs.exclude("fr-neuf-heuristic-set-aside");
                    return Ok(());
                }
                let out = replace_numbers_in_text(&text, lg, 0.0);
                if out != want {
                    return Err(format!("{} lone zero: rewrite of {:?} = {:?}, expected {:?}", tag, text, out, want));
                }
                obs.label("lone-zero");
            }
        }
        obs.label(&format!("lang-{}", c.lang));
        Ok(())
    }
}
