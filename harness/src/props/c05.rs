//! C05 Decimal round-trip: integer, separator word, fraction become one decimal.
use super::c01::roundtrip_ex;
use super::ctx::context;
use crate::choose::{Bytes, Canon};
use crate::engine::*;
use crate::gen::*;
use crate::spell;
use crate::util::*;
use proptest::prelude::*;
use serde::{Deserialize, Serialize};
use serde_json::json;
use text2num::replace_numbers_in_text;

#[derive(Clone, Debug, Hash, Serialize, Deserialize)]
pub struct Case {
    pub lang: String,
    /// 0: n sep frac(d) -> one decimal; 1: X sep m -> separator kept as a word; 2: n sep X / n sep <end>;
    /// 3 (en, de): n sep <one-word number >= 10> -> two numbers
    pub shape: u8,
    pub n: u64,
    pub d: String,
    pub choices: Vec<u8>,
    pub prefix: String,
    pub suffix: String,
}
pub struct C05;

/// fraction words; English `o` only where it has a digit-word neighbour inside the fraction (C18)
fn fraction_words(lang: &str, d: &str, c: &mut Bytes) -> Vec<String> {
    let mut w = spell::fraction(lang, d, c);
    if lang == "en" && d.len() < 2 {
        for x in w.iter_mut() {
            if x == "o" {
                *x = "zero".into();
            }
        }
    }
    w
}

impl Property for C05 {
    type Input = Case;
    fn id(&self) -> &'static str {
        "C05"
    }
    fn rule(&self) -> String {
        "Reference-speller oracle. Generated: (language, shape, n < 10^9, fraction digit string d of 1..6 digits with any leading zeros, choice bytes, prefix, suffix). Shape 0: prefix spell(n) SEP fraction(d) suffix (fraction digit by digit in en/de incl. zero|o|nought, k zero-words + a cardinal elsewhere) must be rewritten as prefix n MARK d suffix at thresholds 0, 10 and +inf, as exactly one occurrence covering the phrase, text 'n MARK d', value bit-equal to 'n.d'.parse(), not ordinal. Shape 1: X SEP spell(m) (X an ordinary word or text start) -> 'X SEP m'. Shape 2: spell(n) SEP X and spell(n) SEP at end of text -> 'n SEP X'. Shape 3 (en, de): spell(n) SEP one-word-number>=10 -> 'n SEP m'. Enumerated: every d of length <= 3 (1110 strings) x n in {0,1,12,120,1000} x 7 languages. Non-trivial = distinct shape-0 cases with a leading zero in d, or |d| >= 2, or n >= 21; plus every negative-clause case.".into()
    }
    fn assumptions(&self) -> Vec<String> {
        vec![
            "en: `o` is used as a fractional zero only when another fraction digit is adjacent (C18 makes it a zero there)".into(),
            "fr: fractions where the documented neuf heuristic sets `neuf` aside (un/le/du/l' two or three words before) are excluded and counted".into(),
        ]
    }
    fn exhaustive_subdomains(&self, _tier: Tier) -> Vec<String> {
        vec!["every fraction digit string of length <= 3 x n in {0,1,12,120,1000} x 7 languages, canonical spelling, no context, thresholds 0/10/inf".into()]
    }
    fn strategy(&self, _tier: Tier) -> BoxedStrategy<Case> {
        lang_strategy()
            .prop_flat_map(|lang| {
                let l2 = lang.clone();
                (
                    prop_oneof![6 => Just(0u8), 1 => Just(1u8), 1 => Just(2u8), 1 => Just(3u8), 1 => Just(4u8), 1 => Just(5u8)],
                    num_strategy(1_000_000_000),
                    prop_oneof![3 => "[0-9]{1,3}", 2 => "0{1,3}[0-9]{1,3}", 2 => "[0-9]{4,6}", 1 => "0{1,6}"],
                    choices(),
                    prop_oneof![1 => Just((String::new(), String::new())), 2 => context(lang, false)],
                )
                    .prop_map(move |(shape, n, d, choices, (prefix, suffix))| Case { lang: l2.clone(), shape, n, d, choices, prefix, suffix })
            })
            .boxed()
    }
    fn cases(&self, tier: Tier) -> u64 {
        tier.pick(2_000_000, 25_000_000)
    }
    fn enumerate(&self, _tier: Tier, shard: usize, nshards: usize, emit: &mut Emit<Case>) {
        let mut ds: Vec<String> = vec![];
        for len in 1..=3usize {
            for v in 0..10u32.pow(len as u32) {
                ds.push(format!("{:0width$}", v, width = len));
            }
        }
        let ns = [0u64, 1, 12, 120, 1000];
        for i in shard_range(ds.len() as u64 * 5 * 7, shard, nshards) {
            let lang = LANGS[(i % 7) as usize];
            let n = ns[((i / 7) % 5) as usize];
            let d = ds[(i / 35) as usize].clone();
            if !emit(Case { lang: lang.to_string(), shape: 0, n, d, choices: vec![], prefix: String::new(), suffix: String::new() }) {
                return;
            }
        }
    }
    fn check(&self, c: &Case, obs: &mut Obs) -> Result<(), String> {
        let lg = lang(&c.lang);
        let sep = spell::decimal_sep(&c.lang).to_string();
        let mark = decimal_mark(&c.lang);
        let mut ch = Bytes::new(&c.choices);
        let tag = format!("[{} shape={} n={} d={:?} choices {:?}]", c.lang, c.shape, c.n, c.d, c.choices);
        match c.shape {
            0 => {
                let mut words = if c.choices.is_empty() { spell::cardinal(&c.lang, c.n, &mut Canon) } else { spell::cardinal_nk(&c.lang, c.n, &mut ch) };
                // one case in eight: spoken leading zeros before the integer part are kept in the decimal too (C16)
                let lead = if c.choices.len() >= 3 && c.choices[2] < 32 && c.n > 0 { 1 + (c.choices[2] as usize % 3) } else { 0 };
                for _ in 0..lead {
                    words.insert(0, spell::zero_word(&c.lang).to_string());
                }
                words.push(sep);
                words.extend(fraction_words(&c.lang, &c.d, &mut ch));
                let expect = format!("{}{}{}{}", "0".repeat(lead), c.n, mark, c.d);
                let value: f64 = format!("{}.{}", c.n, c.d).parse().unwrap();
                obs.label_if(lead > 0, "leading-zeros-before-the-integer-part");
                let ctx_has_det = |s: &str| s.to_lowercase().split(|x: char| !(x.is_alphanumeric() || x == '\'')).any(|w| matches!(w, "un" | "le" | "du" | "l'"));
                let allow = c.lang == "fr" && words.iter().any(|w| w == "neuf") && (ctx_has_det(&c.prefix) || words.iter().any(|w| w == "un"));
                let ran = roundtrip_ex(&c.lang, &words, &expect, value, false, &c.prefix, &c.suffix, allow, false).map_err(|e| format!("{} {}", tag, e))?;
                if !ran {
                    obs.exclude("fr-neuf-heuristic-set-aside");
                    return Ok(());
                }
                // decimals are rewritten at every threshold
                let text = format!("{}{}{}", c.prefix, words.join(" "), c.suffix);
                for th in [10.0, f64::INFINITY] {
                    let out = replace_numbers_in_text(&text, lg, th);
                    let want = format!("{}{}{}", c.prefix, expect, c.suffix);
                    if out != want {
                        return Err(format!("{} threshold {}: rewrite of {:?} = {:?}, expected {:?}", tag, th, text, out, want));
                    }
                }
                let lead0 = c.d.starts_with('0');
                obs.label_if(lead0, "fraction-with-leading-zero");
                obs.label_if(c.d.len() >= 2, "fraction>=2-digits");
                obs.label_if(c.d.bytes().all(|b| b == b'0'), "fraction-all-zeros");
                obs.label_if(c.n == 0, "integer-part-zero");
                obs.label_if(words.iter().any(|w| w == "o"), "en-o-in-fraction");
                if lead0 || c.d.len() >= 2 || c.n >= 21 {
                    obs.nontrivial(&(&c.lang, &words));
                }
                obs.sample(|| json!({"lang": c.lang, "text": text, "expect": expect}));
            }
            1 => {
                // X sep spell(m): nothing before the separator -> it stays a word, m converted alone
                let m = c.n % 1000;
                let mw = spell::cardinal(&c.lang, m, &mut Canon).join(" ");
                let text = format!("{}{} {}", c.prefix, sep, mw);
                let want = format!("{}{} {}", c.prefix, sep, m);
                if neuf_set_aside(&c.lang, &text) {
                    obs.exclude("fr-neuf-heuristic-set-aside");
                    return Ok(());
                }
                let out = replace_numbers_in_text(&text, lg, 0.0);
                if out != want {
                    return Err(format!("{} separator with no number before it: rewrite of {:?} = {:?}, expected {:?}", tag, text, out, want));
                }
                obs.label("neg:separator-without-integer-part");
                obs.nontrivial(&(&c.lang, &text));
                obs.sample(|| json!({"lang": c.lang, "text": text, "expect": want}));
            }
            2 => {
                let nw = spell::cardinal_nk(&c.lang, c.n, &mut ch).join(" ");
                // the suffix starts with whitespace/punctuation + ordinary words, or is empty (end of text)
                let text = format!("{} {}{}", nw, sep, c.suffix);
                let want = format!("{} {}{}", c.n, sep, c.suffix);
                if neuf_set_aside(&c.lang, &text) {
                    obs.exclude("fr-neuf-heuristic-set-aside");
                    return Ok(());
                }
                let out = replace_numbers_in_text(&text, lg, 0.0);
                if out != want {
                    return Err(format!("{} nothing usable after the separator: rewrite of {:?} = {:?}, expected {:?}", tag, text, out, want));
                }
                obs.label(if c.suffix.is_empty() { "neg:separator-at-end-of-text" } else { "neg:separator-then-ordinary-word" });
                obs.nontrivial(&(&c.lang, &text));
                obs.sample(|| json!({"lang": c.lang, "text": text, "expect": want}));
            }
            5 => {
                // an integer part beyond 10^9 built with the language's largest scale words: h * 10^e, then the decimal
                let (scale, e): (Vec<&str>, usize) = match c.lang.as_str() {
                    "en" => (vec!["million", "billion"], 15),
                    "fr" => (vec!["millions", "milliard"], 15),
                    "de" => (vec!["billion"], 12),
                    "it" => (vec!["bilioni"], 12),
                    "nl" => (vec!["biljoen"], 12),
                    "pt" => (vec!["biliões"], 9),
                    _ => (vec!["mil", "millones"], 9),
                };
                let h = 2 + c.n % 998;
                let mut words = spell::cardinal_nk(&c.lang, h, &mut Canon);
                words.extend(scale.iter().map(|x| x.to_string()));
                words.push(sep);
                words.extend(fraction_words(&c.lang, &c.d, &mut Bytes::new(&[])));
                let int_digits = format!("{}{}", h, "0".repeat(e));
                let expect = format!("{}{}{}", int_digits, mark, c.d);
                let value: f64 = format!("{}.{}", int_digits, c.d).parse().unwrap();
                let ctx_has_det = |s: &str| s.to_lowercase().split(|x: char| !(x.is_alphanumeric() || x == '\'')).any(|w| matches!(w, "un" | "le" | "du" | "l'"));
                let allow = c.lang == "fr" && words.iter().any(|w| w == "neuf") && (ctx_has_det(&c.prefix) || words.iter().any(|w| w == "un"));
                let ran = roundtrip_ex(&c.lang, &words, &expect, value, false, &c.prefix, &c.suffix, allow, false).map_err(|e| format!("{} {}", tag, e))?;
                if !ran {
                    obs.exclude("fr-neuf-heuristic-set-aside");
                    return Ok(());
                }
                obs.label("integer-part-beyond-10^9");
                obs.nontrivial(&(&c.lang, &words));
            }
            4 => {
                // a zero word after a complete decimal whose fraction is spelled as a number starts a new numeral
                if c.lang == "en" || c.lang == "de" || c.d.bytes().all(|b| b == b'0') {
                    obs.exclude("shape-4-not-for-digit-by-digit-fractions");
                    return Ok(());
                }
                let mut words = spell::cardinal_nk(&c.lang, c.n, &mut ch);
                words.push(sep);
                words.extend(fraction_words(&c.lang, &c.d, &mut Bytes::new(&[])));
                let z = spell::zero_word(&c.lang);
                let text = format!("{}{} {}{}", c.prefix, words.join(" "), z, c.suffix);
                let want = format!("{}{}{}{} 0{}", c.prefix, c.n, mark, c.d, c.suffix);
                if neuf_set_aside(&c.lang, &text) {
                    obs.exclude("fr-neuf-heuristic-set-aside");
                    return Ok(());
                }
                let out = replace_numbers_in_text(&text, lg, 0.0);
                if out != want {
                    return Err(format!("{} a zero after a complete decimal starts a new numeral: rewrite of {:?} = {:?}, expected {:?}", tag, text, out, want));
                }
                obs.label("neg:zero-after-a-decimal");
                obs.nontrivial(&(&c.lang, &text));
            }
            _ => {
                if c.lang != "en" && c.lang != "de" {
                    obs.exclude("shape-3-only-en-de");
                    return Ok(());
                }
                // one-word number >= 10 after the separator: not a digit-by-digit fraction
                let m = 10 + c.d.parse::<u64>().unwrap_or(0) % 90;
                let mw = spell::cardinal(&c.lang, m, &mut Canon);
                if mw.len() != 1 {
                    obs.exclude("shape-3-multiword");
                    return Ok(());
                }
                let nw = spell::cardinal_nk(&c.lang, c.n, &mut ch).join(" ");
                let text = format!("{}{} {} {}", c.prefix, nw, sep, mw[0]);
                let want = format!("{}{} {} {}", c.prefix, c.n, sep, m);
                if neuf_set_aside(&c.lang, &text) {
                    obs.exclude("fr-neuf-heuristic-set-aside");
                    return Ok(());
                }
                let out = replace_numbers_in_text(&text, lg, 0.0);
                if out != want {
                    return Err(format!("{} a number >= 10 after the separator is not a fractional digit: rewrite of {:?} = {:?}, expected {:?}", tag, text, out, want));
                }
                obs.label("neg:separator-then-number>=10");
                obs.nontrivial(&(&c.lang, &text));
                obs.sample(|| json!({"lang": c.lang, "text": text, "expect": want}));
            }
        }
        obs.label(&format!("lang-{}", c.lang));
        Ok(())
    }
}
