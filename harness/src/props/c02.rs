//! C02 Rewriting is local: only number spans change, everything else is kept verbatim.
use super::common::*;
use crate::engine::*;
use crate::gen::*;
use crate::util::*;
use proptest::prelude::*;
use serde::{Deserialize, Serialize};
use serde_json::json;
use text2num::{find_numbers, replace_numbers_in_stream, replace_numbers_in_text};

#[derive(Clone, Debug, Hash, Serialize, Deserialize)]
pub struct Case {
    pub lang: String,
    pub text: String,
    pub th_bits: u64,
    /// per-token hint bytes for the stream clause (low nibble == 1: separated, high nibble == 1: not a number part)
    pub hints: Vec<u8>,
    /// the generator built this text from ordinary (non-number, non-linking) words and punctuation only
    pub numberless: bool,
}
pub struct C02;

fn stream_of(text: &str, hints: &[u8]) -> Vec<Tk> {
    let mut v: Vec<Tk> = tokens_of(text).iter().enumerate().map(|(i, t)| Tk::new(i, &t.text)).collect();
    apply_hints(&mut v, hints);
    v
}

impl Property for C02 {
    type Input = Case;
    fn id(&self) -> &'static str {
        "C02"
    }
    fn rule(&self) -> String {
        "Generated: (language, text, threshold, hint bytes): texts from the clean and dirty sentence generators (number words of every class, speller phrases, ordinals, conjunction/separator/linking/filler words, punctuation, mixed whitespace incl. NBSP/thin space/tab/newline, recasing, glue, truncated words, hostile unicode fragments) and arbitrary unicode strings; thresholds incl. non-finite. Oracle: (1) concatenation of the tokenizer's tokens == input; (2) replace_numbers_in_text == our splice of the tokens with the occurrences reported by find_numbers on the annotated tokens; (3) no occurrence => output byte-identical, and a text the generator built only from ordinary words and punctuation is returned identical; (4) on id-recording token streams with random separation / not-a-number hints - three per text: every token of the tokenizer, the same without whitespace tokens, word tokens only (a speech recogniser's stream, where occurrences can be directly adjacent) - replace_numbers_in_stream hands each token exactly once and in order either through unchanged or to the replacement constructor of the one occurrence covering it (ids 0..n flatten in order; replaced groups == find_numbers spans with that occurrence's text). Whole-run procedure: clause (2) on long documents (W ordinary words with 2W tokens just above 2^10..2^16, 1000, 10 000, 50 000 - thorough up to 2^20 - followed by tails whose small numbers are linked across punctuation), threshold 10. Non-trivial = distinct texts with >= 1 occurrence and >= 1 non-ASCII or punctuation token.".into()
    }
    fn assumptions(&self) -> Vec<String> {
        vec!["clause (2) compares two routes through the library (drain/insert/join vs. reported spans); the independent parts are splice, concat and the id accounting".into()]
    }
    fn strategy(&self, _tier: Tier) -> BoxedStrategy<Case> {
        let from_sentence = text_case(40, 12).prop_map(|tc| {
            let numberless = !tc.sent.items.is_empty() && tc.sent.items.iter().all(|i| matches!(i.class, Class::Filler | Class::Punct));
            (tc.lang.clone(), tc.text(), tc.th_bits, numberless)
        });
        let fillers_only = (lang_strategy(), proptest::collection::vec((any::<u16>(), 0u8..24, 0u8..12), 1..10), threshold_strategy()).prop_map(|(lang, ws, th)| {
            let v = vocab_of(&lang);
            let mut s = String::new();
            for (a, j, p) in ws {
                s.push_str(v.fillers[idx(a, v.fillers.len())]);
                if p == 0 {
                    s.push_str(crate::spell::vocab::PUNCT[j as usize % crate::spell::vocab::PUNCT.len()]);
                }
                s.push_str(crate::spell::vocab::SPACES[if j < 16 { 0 } else { j as usize % 8 }]);
            }
            (lang, s, th, true)
        });
        let wild = (lang_strategy(), wild_text(), threshold_strategy()).prop_map(|(l, t, th)| (l, t, th, false));
        (prop_oneof![8 => from_sentence, 1 => fillers_only, 2 => wild], proptest::collection::vec(any::<u8>(), 0..30))
            .prop_map(|((lang, text, th_bits, numberless), hints)| Case { lang, text, th_bits, hints, numberless })
            .boxed()
    }
    fn cases(&self, tier: Tier) -> u64 {
        tier.pick(2_000_000, 25_000_000)
    }
    fn fuzz_target(&self) -> Option<&'static str> {
        Some("text_api")
    }
    fn from_fuzz_bytes(&self, data: &[u8]) -> Option<Case> {
        let t = crate::fuzzdec::decode_text(data);
        Some(Case { lang: t.lang.into(), text: t.text, th_bits: t.th_bits, hints: t.hints, numberless: false })
    }
    fn extra(&self, tier: Tier, _seed: u64, obs: &mut Obs) -> Result<(), (String, serde_json::Value)> {
        // long documents: the rewrite must still be the splice of the occurrences reported for the whole token list
        use super::common::{long_doc, long_doc_sizes, long_doc_tails};
        let jobs: Vec<(&'static str, usize, String)> = LANGS.iter().flat_map(|l| long_doc_sizes(tier == Tier::Thorough).into_iter().flat_map(move |sz| long_doc_tails(l).into_iter().map(move |t| (*l, sz, t)))).collect();
        let bad: std::sync::Mutex<Option<(String, serde_json::Value)>> = std::sync::Mutex::new(None);
        let n = std::sync::atomic::AtomicU64::new(0);
        std::thread::scope(|s| {
            for th in 0..16usize {
                let (jobs, bad, n) = (&jobs, &bad, &n);
                s.spawn(move || {
                    for (i, (l, sz, tail)) in jobs.iter().enumerate() {
                        if i % 16 != th || bad.lock().unwrap().is_some() {
                            continue;
                        }
                        let lg = lang(l);
                        let (prefix, tail) = long_doc(l, *sz, 2, tail);
                        let doc = format!("{}{}", prefix, tail);
                        let t = 10.0f64;
                        let r = std::panic::catch_unwind(|| {
                            let (toks, o) = scan(&doc, lg, t);
                            (replace_numbers_in_text(&doc, lg, t), splice(&toks, &o))
                        });
                        let Ok((out, sp)) = r else { continue };
                        n.fetch_add(1, std::sync::atomic::Ordering::Relaxed);
                        if out != sp {
                            let tl = |x: &str| x.chars().rev().take(80).collect::<Vec<_>>().into_iter().rev().collect::<String>();
                            *bad.lock().unwrap() = Some((
                                format!("[{}] long document ({} ordinary words + {:?}), threshold 10: rewrite ends {:?} but the splice of the reported occurrences ends {:?}", l, sz / 2 + 2, tail, tl(&out), tl(&sp)),
                                json!({"lang": l, "text": format!("<{} x {:?}> {}", sz / 2 + 2, vocab_of(l).fillers[0], tail), "th_bits": t.to_bits(), "hints": [], "numberless": false}),
                            ));
                            return;
                        }
                    }
                });
            }
        });
        obs.evaluations += n.load(std::sync::atomic::Ordering::Relaxed);
        obs.label("long-document-splice");
        match bad.into_inner().unwrap() {
            Some(e) => Err(e),
            None => Ok(()),
        }
    }
    fn check(&self, c: &Case, obs: &mut Obs) -> Result<(), String> {
        CONSUME_LIMIT.with(|c| c.set(usize::MAX));
        let lg = lang(&c.lang);
        let th = th_of(c.th_bits);
        let s = &c.text;
        // (1) lossless tokenizer
        let raw = tokens_of(s);
        let cat: String = raw.iter().map(|t| t.text.as_str()).collect();
        if &cat != s {
            return Err(format!("tokenizer is not lossless: tokens concatenate to {:?}, input {:?}", cat, s));
        }
        if raw.iter().any(|t| t.text.is_empty()) {
            return Err("tokenizer produced an empty token".into());
        }
        // (2) rewrite == splice of reported occurrences
        let (t, o) = scan(s, lg, th);
        let out = replace_numbers_in_text(s, lg, th);
        let sp = splice(&t, &o);
        if out != sp {
            return Err(format!("rewrite differs from the splice of the reported occurrences\n input  {:?} th={}\n output {:?}\n splice {:?}\n occs {:?}", s, fmt_th(c.th_bits), out, sp, o));
        }
        // (3)
        if o.is_empty() && &out != s {
            return Err(format!("no occurrence reported but the text changed: {:?} -> {:?}", s, out));
        }
        if c.numberless && &out != s {
            return Err(format!("a text made of ordinary words and punctuation only was changed: {:?} -> {:?}", s, out));
        }
        // (4) stream clause, on three streams made of the same text: every token of the tokenizer; the same without
        // the whitespace tokens; word tokens only (what a speech recogniser hands over: occurrences can then be
        // directly adjacent, end(k) == start(k+1))
        let mut occ_full: Vec<Occ> = vec![];
        for form in 0..3u8 {
        let stream: Vec<Tk> = {
            let kept: Vec<&str> = raw.iter().map(|t| t.text.as_str()).filter(|x| match form { 0 => true, 1 => !is_ws(x), _ => is_word(x) }).collect();
            let mut v: Vec<Tk> = kept.iter().enumerate().map(|(i, x)| Tk::new(i, x)).collect();
            apply_hints(&mut v, &c.hints);
            v
        };
        let s = &stream.iter().map(|t| t.text.as_str()).collect::<Vec<_>>().join("|");
        let n = stream.len();
        let occ = occs(find_numbers(stream.iter(), lg, th));
        let res = replace_numbers_in_stream(stream.clone(), lg, th);
        let flat: Vec<usize> = res.iter().flat_map(|t| t.ids.iter().copied()).collect();
        if flat != (0..n).collect::<Vec<_>>() {
            return Err(format!("token accounting broken: ids after rewriting {:?}, expected 0..{} in order (text {:?})", flat, n, s));
        }
        let mut expect: Vec<Tk> = vec![];
        let mut i = 0;
        let mut k = 0;
        while i < n {
            if k < occ.len() && occ[k].start == i && occ[k].end > i && occ[k].end <= n {
                expect.push(Tk { ids: (occ[k].start..occ[k].end).collect(), text: occ[k].text.clone(), lower: occ[k].text.to_lowercase(), sep: false, nan: false, replaced: true, pause_after: false, via_prev: false });
                i = occ[k].end;
                k += 1;
            } else {
                expect.push(stream[i].clone());
                i += 1;
            }
        }
        // a replacement constructor may read none, one or all of the tokens it is handed: the stream must
        // come out the same (unread tokens are consumed by the library, not left behind)
        for limit in [0usize, 1] {
            CONSUME_LIMIT.with(|c| c.set(limit));
            let part = replace_numbers_in_stream(stream.clone(), lg, th);
            CONSUME_LIMIT.with(|c| c.set(usize::MAX));
            let shape = |v: &[Tk]| v.iter().map(|t| (t.text.clone(), t.replaced, if t.replaced { vec![] } else { t.ids.clone() })).collect::<Vec<_>>();
            if shape(&part) != shape(&res) {
                return Err(format!("stream rewrite depends on how many replaced tokens the replacement constructor reads (limit {})\n text {:?} th={}\n reads all: {:?}\n reads {}: {:?}", limit, s, fmt_th(c.th_bits), shape(&res), limit, shape(&part)));
            }
            for t in part.iter().filter(|t| t.replaced) {
                if t.ids.len() > limit {
                    return Err(format!("replacement constructor asked for {} tokens but got {}", limit, t.ids.len()));
                }
            }
        }
        if k != occ.len() || expect != res {
            return Err(format!("stream rewrite differs from 'kept tokens + one replacement per reported occurrence'\n tokens {:?} th={}\n occs {:?}\n got {:?}", s, fmt_th(c.th_bits), occ, res.iter().map(|t| (t.ids.clone(), t.text.clone(), t.replaced)).collect::<Vec<_>>()));
        }
        obs.label_if(form > 0 && occ.windows(2).any(|w| w[0].end == w[1].start), "adjacent-occurrences(no-gap-stream)");
        if form == 0 {
            occ_full = occ;
        }
        }
        let occ = occ_full;
        // classification
        obs.label(match o.len() {
            0 => "occurrences=0",
            1 => "occurrences=1",
            2 => "occurrences=2",
            _ => "occurrences>=3",
        });
        let nonascii = !s.is_ascii();
        let punct = t.iter().any(|x| !is_word(&x.text) && !is_ws(&x.text));
        obs.label_if(nonascii, "non-ascii");
        obs.label_if(punct, "punctuation-token");
        obs.label_if(s.contains('-') || s.contains('\''), "hyphen/apostrophe");
        obs.label_if(c.numberless, "numberless-by-construction");
        obs.label_if(occ != o && !c.hints.is_empty(), "hints-changed-occurrences");
        if !o.is_empty() && (nonascii || punct) {
            obs.nontrivial(&(&c.lang, s, c.th_bits));
        }
        obs.sample(|| json!({"lang": c.lang, "text": s, "threshold": fmt_th(c.th_bits), "output": out}));
        Ok(())
    }
}
