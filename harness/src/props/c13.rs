//! C13 Language facade behaves exactly as the concrete interpreter; ISO codes resolve.
use crate::choose::Canon;
use crate::engine::*;
use crate::gen::*;
use crate::spell;
use crate::util::*;
use proptest::prelude::*;
use serde::{Deserialize, Serialize};
use serde_json::json;
use text2num::digit_string::DigitString;
use text2num::lang::{Dutch, English, French, German, Italian, Portuguese, Spanish};
use text2num::verif_hooks::BasicToken;
use text2num::{find_numbers, find_numbers_iter, get_interpreter_for, replace_numbers_in_stream, replace_numbers_in_text, text2digits, LangInterpreter, Language};

#[derive(Clone, Debug, Hash, Serialize, Deserialize)]
pub struct Case {
    pub lang: String,
    pub text: String,
    pub th_bits: u64,
    /// a candidate for "not a language code"
    pub code: String,
}
pub struct C13;

fn obs_builder(b: &DigitString) -> String {
    format!("{}|len={}|empty={}|flags={}|marker={:?}|ord={}", b.to_string(), b.len(), b.is_empty(), b.flags, b.marker, b.is_ordinal())
}
fn annotate_flags<L: LangInterpreter>(l: &L, text: &str) -> Vec<bool> {
    let mut t: Vec<BasicToken> = tokens_of(text);
    l.basic_annotate(&mut t);
    t.iter().map(|x| x.nan).collect()
}

/// every operation through the facade `f` and through the concrete type `c`
fn differential<F: LangInterpreter, C: LangInterpreter>(f: &F, c: &C, text: &str, th: f64) -> Result<usize, String> {
    macro_rules! same {
        ($what:expr, $a:expr, $b:expr) => {{
            let (a, b) = ($a, $b);
            if a != b {
                return Err(format!("{} differs on {:?} (th={:?}): facade {:?}, concrete {:?}", $what, text, th, a, b));
            }
        }};
    }
    same!("text2digits", format!("{:?}", text2digits(text, f)), format!("{:?}", text2digits(text, c)));
    same!("replace_numbers_in_text", replace_numbers_in_text(text, f, th), replace_numbers_in_text(text, c, th));
    let toks = tokens_of(text);
    same!("find_numbers", occs(find_numbers(toks.iter(), f, th)), occs(find_numbers(toks.iter(), c, th)));
    same!("find_numbers_iter", occs(find_numbers_iter(toks.iter(), f, th).collect()), occs(find_numbers_iter(toks.iter(), c, th).collect()));
    let stream: Vec<Tk> = toks.iter().enumerate().map(|(i, t)| Tk::new(i, &t.text)).collect();
    same!("replace_numbers_in_stream", replace_numbers_in_stream(stream.clone(), f, th), replace_numbers_in_stream(stream, c, th));
    same!("basic_annotate", annotate_flags(f, text), annotate_flags(c, text));
    // the same pass on a caller-built token vector, some tokens arriving already flagged
    {
        let mk = || -> Vec<Tk> {
            toks.iter().enumerate().map(|(i, t)| {
                let mut k = Tk::new(i, &t.text);
                k.nan = is_word(&t.text) && (t.text.len() + i) % 5 == 0;
                k
            }).collect()
        };
        let (mut a, mut b) = (mk(), mk());
        f.basic_annotate(&mut a);
        c.basic_annotate(&mut b);
        same!("basic_annotate on pre-flagged caller tokens", a.iter().map(|t| t.nan).collect::<Vec<_>>(), b.iter().map(|t| t.nan).collect::<Vec<_>>());
    }
    // per-word trait methods, on the builder states the text's own words produce
    let lower = text.to_lowercase();
    let words: Vec<&str> = lower.split_whitespace().collect();
    same!("exec_group", format!("{:?}", f.exec_group(words.iter().copied()).map(|b| obs_builder(&b))), format!("{:?}", c.exec_group(words.iter().copied()).map(|b| obs_builder(&b))));
    let (mut bf, mut bc) = (DigitString::new(), DigitString::new());
    let (mut df, mut dc) = (DigitString::new(), DigitString::new());
    for w in &words {
        same!(format!("apply({:?})", w), format!("{:?}", f.apply(w, &mut bf)), format!("{:?}", c.apply(w, &mut bc)));
        same!(format!("builder after apply({:?})", w), obs_builder(&bf), obs_builder(&bc));
        same!(format!("apply_decimal({:?})", w), format!("{:?}", f.apply_decimal(w, &mut df)), format!("{:?}", c.apply_decimal(w, &mut dc)));
        same!(format!("builder after apply_decimal({:?})", w), obs_builder(&df), obs_builder(&dc));
        same!(format!("get_morph_marker({:?})", w), format!("{:?}", f.get_morph_marker(w)), format!("{:?}", c.get_morph_marker(w)));
        same!(format!("is_decimal_sep({:?})", w), f.is_decimal_sep(w), c.is_decimal_sep(w));
        same!(format!("is_linking({:?})", w), f.is_linking(w), c.is_linking(w));
        if !bf.is_empty() {
            let (a, b) = (f.format_and_value(&bf), c.format_and_value(&bc));
            same!("format_and_value", (a.0, a.1.to_bits()), (b.0, b.1.to_bits()));
            if !df.is_empty() {
                let (a, b) = (f.format_decimal_and_value(&bf, &df), c.format_decimal_and_value(&bc, &dc));
                same!("format_decimal_and_value", (a.0, a.1.to_bits()), (b.0, b.1.to_bits()));
            }
        } else {
            // an interpreter rejected the word on an empty builder: restart both
            bf.reset();
            bc.reset();
        }
    }
    Ok(words.len())
}
struct Concrete {
    de: German,
    en: English,
    es: Spanish,
    fr: French,
    it: Italian,
    nl: Dutch,
    pt: Portuguese,
}
fn concrete() -> &'static Concrete {
    static C: std::sync::OnceLock<Concrete> = std::sync::OnceLock::new();
    C.get_or_init(|| Concrete { de: German::new(), en: English::new(), es: Spanish::new(), fr: French::new(), it: Italian::new(), nl: Dutch::new(), pt: Portuguese::new() })
}
fn with_pair(code: &str, text: &str, th: f64) -> Result<usize, String> {
    let f = lang(code);
    let c = concrete();
    match code {
        "de" => differential(f, &c.de, text, th),
        "en" => differential(f, &c.en, text, th),
        "es" => differential(f, &c.es, text, th),
        "fr" => differential(f, &c.fr, text, th),
        "it" => differential(f, &c.it, text, th),
        "nl" => differential(f, &c.nl, text, th),
        "pt" => differential(f, &c.pt, text, th),
        _ => Err("unknown language".into()),
    }
}
fn variant_name(l: &Language) -> &'static str {
    match l {
        Language::English(_) => "en",
        Language::French(_) => "fr",
        Language::German(_) => "de",
        Language::Italian(_) => "it",
        Language::Spanish(_) => "es",
        Language::Dutch(_) => "nl",
        Language::Portuguese(_) => "pt",
    }
}
/// strings the statement calls "not language codes": empty, digits, long gibberish, control/unicode
fn clearly_not_a_code(c: &str) -> bool {
    let n = c.chars().count();
    c.is_empty() || c.chars().all(|ch| ch.is_ascii_digit()) || (n >= 4 && !c.contains('-') && !c.contains('_')) || c.chars().any(|ch| ch.is_control() || !ch.is_ascii())
}

impl Property for C13 {
    type Input = Case;
    fn id(&self) -> &'static str {
        "C13"
    }
    fn rule(&self) -> String {
        "Differential. Generated: (language, text from the clean/dirty sentence generators and speller phrases, threshold, candidate non-code string). For the pair (Language::x(), X::new()) every operation must agree: text2digits, replace_numbers_in_text, find_numbers, find_numbers_iter, replace_numbers_in_stream (own id-recording tokens), basic_annotate (flags), exec_group, and word by word apply / apply_decimal (status and resulting builder observation: digits, length, flags, marker), get_morph_marker, is_decimal_sep, is_linking, format_and_value, format_decimal_and_value on the builder states the text's own words produce. get_interpreter_for(code) for each of the seven codes must be Some of the matching enum variant, convert that language's own spelling of 97 and 1234, and agree with the concrete type on the generated text; for generated non-codes (empty, digits only, >= 4 characters without '-'/'_', control or non-ASCII characters) it must be None. Whole-run procedure: the 7x7 table lookup(code_i) vs language_j on discriminating phrases. Non-trivial = distinct (language, text) on which at least two languages give different rewrites (so a swapped delegation would be visible).".into()
    }
    fn assumptions(&self) -> Vec<String> {
        vec!["two-letter alphabetic strings and code+region forms (en-US, fr_FR) are not pronounced on by the statement and are not generated as non-codes".into()]
    }
    fn strategy(&self, _tier: Tier) -> BoxedStrategy<Case> {
        let code = prop_oneof![
            1 => Just(String::new()),
            2 => "[0-9]{1,6}",
            3 => "[a-zA-Z]{4,12}",
            2 => "\\PC{4,10}",
            1 => "[\\x00-\\x1f]{1,3}",
            1 => "(de|en|es|fr|it|nl|pt)[a-z]{2,5}",
            1 => "[éèüßñçøж日]{1,3}",
            // two-character strings whose code points equal a language code modulo 256 / modulo 128 (what a
            // lookup that truncates characters to bytes would see), and full-width / accented look-alikes
            2 => (0usize..7, 1u32..200, 0u32..200, 0u8..3).prop_map(|(i, k1, k2, m)| {
                let code = LANGS[i].as_bytes();
                let f = |b: u8, k: u32| char::from_u32(b as u32 + 256 * k).unwrap_or('¤');
                match m {
                    0 => format!("{}{}", f(code[0], k1), f(code[1], k2)),
                    1 => format!("{}{}", code[0] as char, f(code[1], k2.max(1))),
                    _ => format!("{}{}", char::from_u32(0xFF00 + code[0] as u32 - 0x20).unwrap(), char::from_u32(0xFF00 + code[1] as u32 - 0x20).unwrap()),
                }
            }),
            // words a careless lookup might accept: language names (English and native), none is a code
            2 => (0usize..26).prop_map(|i| ["english", "german", "deutsch", "french", "français", "francais", "spanish", "español", "espanol", "italian", "italiano", "dutch", "nederlands", "portuguese", "português", "portugues", "English", "Deutsch", "FRENCH", "castellano", "flemish", "brazilian", "latin", "esperanto", "klingon", "language"][i].to_string()),
        ];
        (super::common::text_case(25, 10), code).prop_map(|(tc, code)| Case { lang: tc.lang.clone(), text: tc.text(), th_bits: tc.th_bits, code }).boxed()
    }
    fn cases(&self, tier: Tier) -> u64 {
        tier.pick(600_000, 8_000_000)
    }
    fn extra(&self, _tier: Tier, _seed: u64, obs: &mut Obs) -> Result<(), (String, serde_json::Value)> {
        // 7x7: lookup(code) is that language and no other
        for code in LANGS {
            let Some(l) = get_interpreter_for(code) else {
                return Err((format!("get_interpreter_for({:?}) = None for a built-in language", code), json!({"lang": code, "text": "", "th_bits": 0, "code": "0"})));
            };
            if variant_name(&l) != code {
                return Err((format!("get_interpreter_for({:?}) returned the {} interpreter", code, variant_name(&l)), json!({"lang": code, "text": "", "th_bits": 0, "code": "0"})));
            }
            for n in [97u64, 1234, 21, 80] {
                for other in LANGS {
                    let phrase = spell::cardinal(other, n, &mut Canon).join(" ");
                    let got = text2digits(&phrase, &l).ok();
                    let want = text2digits(&phrase, lang(other)).ok();
                    obs.evaluations += 1;
                    if other == code && got != Some(n.to_string()) {
                        return Err((format!("get_interpreter_for({:?}) does not read its own language: {:?} -> {:?}", code, phrase, got), json!({"lang": code, "text": phrase, "th_bits": 0, "code": "0"})));
                    }
                    if other == code && got != want {
                        return Err((format!("get_interpreter_for({:?}) disagrees with Language::{} on {:?}", code, code, phrase), json!({"lang": code, "text": phrase, "th_bits": 0, "code": "0"})));
                    }
                }
            }
            obs.label("iso-code-resolved");
        }
        Ok(())
    }
    fn check(&self, c: &Case, obs: &mut Obs) -> Result<(), String> {
        let th = th_of(c.th_bits);
        let n = with_pair(&c.lang, &c.text, th).map_err(|e| format!("[{}] {}", c.lang, e))?;
        // lookup by code behaves as the language
        match get_interpreter_for(&c.lang) {
            None => return Err(format!("get_interpreter_for({:?}) = None for a built-in language", c.lang)),
            Some(l) => {
                if variant_name(&l) != c.lang {
                    return Err(format!("get_interpreter_for({:?}) returned the {} interpreter", c.lang, variant_name(&l)));
                }
                let (a, b) = (replace_numbers_in_text(&c.text, &l, th), replace_numbers_in_text(&c.text, lang(&c.lang), th));
                if a != b {
                    return Err(format!("get_interpreter_for({:?}) rewrites {:?} as {:?}, Language::{} as {:?}", c.lang, c.text, a, c.lang, b));
                }
            }
        }
        if clearly_not_a_code(&c.code) {
            if let Some(l) = get_interpreter_for(&c.code) {
                return Err(format!("get_interpreter_for({:?}) = Some({}) for a string that is not a language code", c.code, variant_name(&l)));
            }
            obs.label("non-code-rejected");
        } else {
            obs.label("code-candidate-not-judged");
        }
        // discriminating input: do two languages disagree on it?
        let mine = replace_numbers_in_text(&c.text, lang(&c.lang), 0.0);
        let differs = LANGS.iter().filter(|l| **l != c.lang).any(|l| replace_numbers_in_text(&c.text, lang(l), 0.0) != mine);
        obs.label_if(differs, "discriminating(languages-disagree)");
        obs.label(&format!("lang-{}", c.lang));
        obs.label_if(n >= 3, "per-word-methods-on>=3-words");
        if differs {
            obs.nontrivial(&(&c.lang, &c.text));
        }
        obs.sample(|| json!({"lang": c.lang, "text": c.text, "threshold": fmt_th(c.th_bits), "non_code": c.code}));
        Ok(())
    }
}
