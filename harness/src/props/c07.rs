//! C07 Scanner and validator agree; at threshold 0 no number is left spelled out.
use super::common::*;
use crate::engine::*;
use crate::gen::*;
use crate::util::*;
use proptest::prelude::*;
use serde::{Deserialize, Serialize};
use serde_json::json;
use text2num::{find_numbers, text2digits};

#[derive(Clone, Debug, Hash, Serialize, Deserialize)]
pub struct Case {
    pub lang: String,
    pub text: String,
    pub th_bits: u64,
    /// hint bytes for the own-token variant of clauses 1 and 3 (see util::apply_hints)
    #[serde(default)]
    pub hints: Vec<u8>,
}
pub struct C07;

impl Property for C07 {
    type Input = Case;
    fn id(&self) -> &'static str {
        "C07"
    }
    fn rule(&self) -> String {
        "Generated: (language, text, threshold) from the clean and dirty sentence generators (number words of every class placed next to each other so that words get rejected inside or right after a number in progress; scale words and ordinals as frequent as units), plus repeated-scale-word shapes. Differential oracle between the scanner and the validator: (1) any threshold: for each non-decimal occurrence, text2digits(the word tokens of its span joined by spaces) == Ok(occurrence text); (2) for every contiguous run p of <= 6 word tokens with text2digits(p) == Ok(d): scanning p alone (plain tokens, no annotation, threshold 0) yields exactly one occurrence and its text is d; (3) threshold 0: every word token outside all occurrences and not flagged by the language's annotation has text2digits(word) == Err. Clauses (1) and (3) are also asserted on an own-token stream of the same tokens carrying random 'separated' / 'not a number part' hints, and on that stream reduced to its word tokens (a speech recogniser's stream: numbers directly adjacent, with or without hints). Non-trivial = distinct texts with two occurrences directly adjacent (only whitespace between them: a word was rejected by a number in progress), or a validated run of >= 2 words.".into()
    }
    fn strategy(&self, _tier: Tier) -> BoxedStrategy<Case> {
        let from_sentence = text_case(30, 10).prop_map(|tc| Case { lang: tc.lang.clone(), text: tc.text(), th_bits: tc.th_bits, hints: vec![] });
        // number-word salad: only number-ish classes, single spaces
        let salad = (lang_strategy(), proptest::collection::vec((0u8..8, any::<u16>(), any::<u16>()), 1..8), threshold_strategy()).prop_map(|(lang, ws, th_bits)| {
            let v = vocab_of(&lang);
            let words: Vec<String> = ws
                .into_iter()
                .map(|(k, a, b)| match k {
                    0 => v.conj.to_string(),
                    1 => v.zeros[idx(a, v.zeros.len())].to_string(),
                    2 | 3 => v.classes[4][idx(b, v.classes[4].len())].clone(),
                    _ => {
                        let c = &v.classes[idx(a, v.classes.len())];
                        c[idx(b, c.len())].clone()
                    }
                })
                .collect();
            Case { lang, text: words.join(" "), th_bits, hints: vec![] }
        });
        let shaped = super::c06::shaped_texts().prop_map(|(lang, text, th_bits)| Case { lang, text, th_bits, hints: vec![] });
        (prop_oneof![6 => from_sentence, 3 => salad, 1 => shaped], prop_oneof![2 => Just(vec![]), 1 => proptest::collection::vec(any::<u8>(), 1..24)])
            .prop_map(|(mut c, hints)| {
                c.hints = hints;
                c
            })
            .boxed()
    }
    fn cases(&self, tier: Tier) -> u64 {
        tier.pick(2_000_000, 25_000_000)
    }
    fn fuzz_target(&self) -> Option<&'static str> {
        Some("text_api")
    }
    fn from_fuzz_bytes(&self, data: &[u8]) -> Option<Case> {
        let t = crate::fuzzdec::decode_text(data);
        Some(Case { lang: t.lang.into(), text: t.text, th_bits: t.th_bits, hints: t.hints })
    }
    fn check(&self, c: &Case, obs: &mut Obs) -> Result<(), String> {
        let lg = lang(&c.lang);
        let th = th_of(c.th_bits);
        let mark = decimal_mark(&c.lang);
        let (t, o) = scan(&c.text, lg, th);
        let mut nontrivial = false;
        // (1)
        for oc in &o {
            let is_decimal = match parse_numeral(&c.lang, &oc.text) {
                Ok(n) => n.frac.is_some(),
                Err(_) => oc.text.contains(mark),
            };
            if is_decimal {
                obs.label("decimal-occurrence-skipped");
                continue;
            }
            if oc.end > t.len() || oc.start >= oc.end {
                return Err(format!("malformed span {:?} in {:?}", oc, c.text));
            }
            let words: Vec<&str> = t[oc.start..oc.end].iter().filter(|x| is_word(&x.text)).map(|x| x.text.as_str()).collect();
            let phrase = words.join(" ");
            let v = text2digits(&phrase, lg);
            if v.as_deref().ok() != Some(oc.text.as_str()) {
                return Err(format!("scanner reports {:?} over the words {:?} but validating exactly those words gives {:?} (text {:?}, th={})", oc.text, phrase, v, c.text, fmt_th(c.th_bits)));
            }
            obs.label("occurrence-validated");
        }
        for w in o.windows(2) {
            if t[w[0].end..w[1].start].iter().all(|x| is_ws(&x.text)) {
                obs.label("adjacent-occurrences(word rejected by a number in progress)");
                nontrivial = true;
            }
        }
        // (2)
        let words: Vec<&str> = t.iter().filter(|x| is_word(&x.text)).map(|x| x.text.as_str()).collect();
        for len in 1..=words.len().min(6) {
            for st in 0..=(words.len() - len) {
                let phrase = words[st..st + len].join(" ");
                if let Ok(d) = text2digits(&phrase, lg) {
                    let tk = plain_stream(&words[st..st + len]);
                    let oo = occs(find_numbers(tk.iter(), lg, 0.0));
                    if !(oo.len() == 1 && oo[0].text == d) {
                        return Err(format!("the validator accepts {:?} as {:?} but the scanner (threshold 0, no annotation) sees {:?}", phrase, d, oo.iter().map(|x| x.text.clone()).collect::<Vec<_>>()));
                    }
                    if len >= 2 {
                        obs.label("validated-run>=2-words");
                        nontrivial = true;
                    } else {
                        obs.label("validated-single-word");
                    }
                }
            }
        }
        // (2') the same for raw segments of the text that contain punctuation / unusual separators between the words:
        // if the validator accepts the raw segment, the scanner must see exactly that one number in it
        {
            let widx: Vec<usize> = (0..t.len()).filter(|&i| is_word(&t[i].text)).collect();
            for a in 0..widx.len() {
                for b in a + 1..widx.len().min(a + 4) {
                    let seg: String = t[widx[a]..=widx[b]].iter().map(|x| x.text.as_str()).collect();
                    if t[widx[a]..=widx[b]].iter().all(|x| is_word(&x.text) || x.text == " ") {
                        continue;
                    }
                    if let Ok(d) = text2digits(&seg, lg) {
                        // (no ambiguity annotation, as in clause 2)
                        let plain = tokens_of(&seg);
                        let oo = occs(find_numbers(plain.iter(), lg, 0.0));
                        if !(oo.len() == 1 && oo[0].text == d) {
                            return Err(format!("the validator accepts the raw segment {:?} as {:?} but the scanner sees {:?} in it", seg, d, oo.iter().map(|x| x.text.clone()).collect::<Vec<_>>()));
                        }
                        obs.label("validated-raw-segment-with-separators");
                    }
                }
            }
        }
        // (3)
        if th == 0.0 {
            let mut cov = vec![false; t.len()];
            for oc in &o {
                for k in oc.start..oc.end.min(t.len()) {
                    cov[k] = true;
                }
            }
            for (k, x) in t.iter().enumerate() {
                if !cov[k] && is_word(&x.text) {
                    if x.nan {
                        obs.label("uncovered-word-set-aside-by-annotation");
                        continue;
                    }
                    if let Ok(d) = text2digits(&x.text, lg) {
                        return Err(format!("threshold 0: the word {:?} is a valid number ({}) on its own, was not set aside by the annotation, yet lies in no occurrence (text {:?}, occurrences {:?})", x.text, d, c.text, o));
                    }
                }
            }
            obs.label("threshold-0-coverage-checked");
        }
        // own-token stream with 'separated' / 'not a number part' hints: clauses (1) and (3) again
        // (second pass: the same reduced to its word tokens - a speech recogniser's stream, numbers directly adjacent)
        for words_only in [false, true] {
        if !c.hints.is_empty() {
            let mut stream: Vec<Tk> = t.iter().map(|x| x.text.as_str()).filter(|x| !words_only || is_word(x)).enumerate().map(|(i, x)| Tk::new(i, x)).collect();
            if apply_hints(&mut stream, &c.hints) || words_only {
                let so = occs(find_numbers(stream.iter(), lg, th));
                let mut cov = vec![false; stream.len()];
                for oc in &so {
                    if oc.end > stream.len() || oc.start >= oc.end {
                        return Err(format!("malformed span {:?} on the hinted stream of {:?}", oc, c.text));
                    }
                    for k in oc.start..oc.end {
                        cov[k] = true;
                    }
                    if parse_numeral(&c.lang, &oc.text).map(|n| n.frac.is_some()).unwrap_or(false) {
                        continue;
                    }
                    let words: Vec<&str> = stream[oc.start..oc.end].iter().filter(|x| is_word(&x.text)).map(|x| x.text.as_str()).collect();
                    let phrase = words.join(" ");
                    let v = text2digits(&phrase, lg);
                    if v.as_deref().ok() != Some(oc.text.as_str()) {
                        return Err(format!("hinted stream: scanner reports {:?} over the words {:?} but validating exactly those words gives {:?} (text {:?}, hints {:?}, th={})", oc.text, phrase, v, c.text, c.hints, fmt_th(c.th_bits)));
                    }
                }
                if th == 0.0 {
                    for (k, x) in stream.iter().enumerate() {
                        if !cov[k] && !x.nan && is_word(&x.text) {
                            if let Ok(d) = text2digits(&x.text, lg) {
                                return Err(format!("hinted stream, threshold 0: the word {:?} (token {}) is a valid number ({}) on its own, is not flagged, yet lies in no occurrence (text {:?}, hints {:?}, occurrences {:?})", x.text, k, d, c.text, c.hints, so));
                            }
                        }
                    }
                }
                obs.label(if words_only { "word-only-stream-checked" } else { "hinted-stream-checked" });
            }
        }
        }
        if nontrivial {
            obs.nontrivial(&(&c.lang, &c.text));
        }
        obs.sample(|| json!({"lang": c.lang, "text": c.text, "threshold": fmt_th(c.th_bits), "occurrences": o.iter().map(|x| x.text.clone()).collect::<Vec<_>>()}));
        Ok(())
    }
}
