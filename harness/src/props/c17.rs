//! C17 Whitespace kind and amount never matter.
use super::common::*;
use crate::engine::*;
use crate::gen::*;
use crate::util::*;
use proptest::prelude::*;
use serde::{Deserialize, Serialize};
use serde_json::json;
use text2num::{replace_numbers_in_text, text2digits, LangInterpreter};

#[derive(Clone, Debug, Hash, Serialize, Deserialize)]
pub struct Case {
    pub lang: String,
    pub text: String,
    pub th_bits: u64,
    /// replacement runs, used cyclically for the maximal whitespace runs of the text
    pub runs: Vec<String>,
    pub lead: String,
    pub trail: String,
}
pub struct C17;

pub const WS: [char; 25] = [
    ' ', '\t', '\n', '\r', '\u{b}', '\u{c}', '\u{85}', '\u{a0}', '\u{1680}', '\u{2000}', '\u{2001}', '\u{2002}', '\u{2003}', '\u{2004}', '\u{2005}', '\u{2006}', '\u{2007}', '\u{2008}', '\u{2009}', '\u{200a}', '\u{2028}', '\u{2029}',
    '\u{202f}', '\u{205f}', '\u{3000}',
];
fn ws_run(min: usize) -> BoxedStrategy<String> {
    proptest::collection::vec(prop_oneof![2 => Just(0usize), 3 => 0usize..WS.len()], min..4).prop_map(|v| v.into_iter().map(|i| WS[i]).collect()).boxed()
}
pub fn substitute(s: &str, runs: &[String], lead: &str, trail: &str) -> String {
    let mut out = String::from(lead);
    let mut k = 0;
    let mut in_ws = false;
    for c in s.chars() {
        if c.is_whitespace() {
            if !in_ws {
                if runs.is_empty() {
                    out.push(' ');
                } else {
                    out.push_str(&runs[k % runs.len()]);
                }
                k += 1;
            }
            in_ws = true;
        } else {
            in_ws = false;
            out.push(c);
        }
    }
    out.push_str(trail);
    out
}
/// token index -> index among tokens that are not whitespace-only; occurrences mapped to (first,last) of those
fn word_spans(t: &[text2num::verif_hooks::BasicToken], o: &[Occ]) -> Vec<(usize, usize, String, u64, bool)> {
    let mut map = vec![0usize; t.len() + 1];
    let mut k = 0;
    for (i, x) in t.iter().enumerate() {
        map[i] = k;
        if !is_ws(&x.text) {
            k += 1;
        }
    }
    map[t.len()] = k;
    o.iter().map(|oc| (map[oc.start.min(t.len())], map[oc.end.saturating_sub(1).min(t.len())], oc.text.clone(), oc.value_bits, oc.ord)).collect()
}
fn strip_ws(t: &[text2num::verif_hooks::BasicToken]) -> Vec<String> {
    t.iter().map(|x| x.text.chars().filter(|c| !c.is_whitespace()).collect::<String>()).filter(|x| !x.is_empty()).collect()
}

impl Property for C17 {
    type Input = Case;
    fn id(&self) -> &'static str {
        "C17"
    }
    fn rule(&self) -> String {
        "Metamorphic. Generated: (language, text s from the clean/dirty sentence generators incl. English `o`, threshold, substitution w): every maximal whitespace run of s is replaced by another non-empty run over all 25 char::is_whitespace characters (space, tab, LF, CR, VT, FF, U+0085, U+00A0, U+1680, U+2000-200A, U+2028/9, U+202F, U+205F, U+3000), plus optional leading/trailing whitespace. Oracle: the non-whitespace content of the token sequence is unchanged; occurrence lists of s and w(s) are equal in text, value bits, flag and in the index (among non-whitespace tokens) of first and last covered token; text2digits(w(s)) == text2digits(s); rewrite(w(s)) == splice of w(s)'s own tokens with those occurrences (whitespace outside rewritten spans passes through verbatim). Non-trivial = distinct (s, w) where s contains an occurrence or an English `o` and w changes at least one run to contain a non-ASCII whitespace character.".into()
    }
    fn strategy(&self, _tier: Tier) -> BoxedStrategy<Case> {
        (text_case(20, 10), proptest::collection::vec(ws_run(1), 1..6), prop_oneof![3 => Just(String::new()), 1 => ws_run(1)], prop_oneof![3 => Just(String::new()), 1 => ws_run(1)])
            .prop_map(|(tc, runs, lead, trail)| Case { lang: tc.lang.clone(), text: tc.text(), th_bits: tc.th_bits, runs, lead, trail })
            .boxed()
    }
    fn cases(&self, tier: Tier) -> u64 {
        tier.pick(2_000_000, 25_000_000)
    }
    fn check(&self, c: &Case, obs: &mut Obs) -> Result<(), String> {
        let lg = lang(&c.lang);
        let th = th_of(c.th_bits);
        let s = &c.text;
        let w = substitute(s, &c.runs, &c.lead, &c.trail);
        let (t1, o1) = scan(s, lg, th);
        let (t2, o2) = scan(&w, lg, th);
        if strip_ws(&t1) != strip_ws(&t2) {
            return Err(format!("[{}] whitespace substitution changed the words: {:?} vs {:?}", c.lang, s, w));
        }
        let (a1, a2) = (word_spans(&t1, &o1), word_spans(&t2, &o2));
        if a1 != a2 {
            return Err(format!("[{}] threshold {}: whitespace substitution changed the recognised numbers\n {:?} -> {:?}\n {:?} -> {:?}", c.lang, fmt_th(c.th_bits), s, a1, w, a2));
        }
        let (v1, v2) = (text2digits(s, lg).ok(), text2digits(&w, lg).ok());
        if v1 != v2 {
            return Err(format!("[{}] text2digits({:?}) = {:?} but text2digits({:?}) = {:?}", c.lang, s, v1, w, v2));
        }
        let out = replace_numbers_in_text(&w, lg, th);
        let want = splice(&t2, &o2);
        if out != want {
            return Err(format!("[{}] rewrite of {:?} = {:?}, expected {:?} (whitespace outside rewritten spans is passed through)", c.lang, w, out, want));
        }
        // the language's annotation pass on a caller-built token vector in which every whitespace character
        // is its own token (the amount of whitespace = the number of blank tokens): the flags of the
        // non-blank tokens must be those of the tokenizer's own token list
        {
            let mut split: Vec<Tk> = vec![];
            let mut owner: Vec<usize> = vec![];
            for (i, tok) in t2.iter().enumerate() {
                if is_ws(&tok.text) && tok.text.chars().count() > 1 {
                    for ch in tok.text.chars() {
                        split.push(Tk::new(split.len(), &ch.to_string()));
                        owner.push(i);
                    }
                } else {
                    split.push(Tk::new(split.len(), &tok.text));
                    owner.push(i);
                }
            }
            if split.len() != t2.len() {
                lg.basic_annotate(&mut split);
                for (k, tk) in split.iter().enumerate() {
                    if !is_ws(&tk.text) && tk.nan != t2[owner[k]].nan {
                        return Err(format!("[{}] annotation of {:?} depends on how the whitespace is split into tokens: token {:?} is flagged {} with one blank token per character, {} with one token per run", c.lang, w, tk.text, tk.nan, t2[owner[k]].nan));
                    }
                }
                obs.label("annotation-on-char-level-blank-tokens");
            }
        }
        let non_ascii = c.runs.iter().chain([&c.lead, &c.trail]).any(|r| !r.is_ascii());
        let has_o = c.lang == "en" && t1.iter().any(|x| x.lowercase == "o");
        obs.label_if(non_ascii, "non-ascii-whitespace");
        obs.label_if(has_o, "en-o-present");
        obs.label_if(!o1.is_empty(), "has-occurrence");
        obs.label_if(!c.lead.is_empty() || !c.trail.is_empty(), "whitespace-added-at-ends");
        if (!o1.is_empty() || has_o) && non_ascii && w != *s {
            obs.nontrivial(&(&c.lang, s, &w, c.th_bits));
        }
        obs.sample(|| json!({"lang": c.lang, "text": s, "substituted": w, "threshold": fmt_th(c.th_bits), "output": out}));
        Ok(())
    }
}
