//! C11 Letter case never matters.
use super::common::*;
use crate::engine::*;
use crate::gen::*;
use crate::util::*;
use proptest::prelude::*;
use serde::{Deserialize, Serialize};
use serde_json::json;
use text2num::{find_numbers, replace_numbers_in_text, text2digits};

#[derive(Clone, Debug, Hash, Serialize, Deserialize)]
pub struct Case {
    pub lang: String,
    pub text: String,
    pub th_bits: u64,
    /// 0 upper, 1 lower, 2 capitalised words, 3 per-character by mask
    pub mode: u8,
    pub mask: Vec<u8>,
}
pub struct C11;

/// recase one char if its mapping is one-to-one and keeps the lowercase form
fn flip(c: char, upper: bool) -> char {
    let mut it: Box<dyn Iterator<Item = char>> = if upper { Box::new(c.to_uppercase()) } else { Box::new(c.to_lowercase()) };
    let (a, b) = (it.next(), it.next());
    match (a, b) {
        (Some(n), None) if n.to_lowercase().eq(c.to_lowercase()) => n,
        _ => c,
    }
}
pub fn recase(s: &str, mode: u8, mask: &[u8]) -> String {
    let mut out = String::with_capacity(s.len());
    let mut at_word_start = true;
    for (i, c) in s.chars().enumerate() {
        let n = match mode {
            0 => flip(c, true),
            1 => flip(c, false),
            2 => flip(c, at_word_start),
            _ => {
                let bit = if mask.is_empty() { 0 } else { (mask[(i / 8) % mask.len()] >> (i % 8)) & 1 };
                flip(c, bit == 1)
            }
        };
        at_word_start = !c.is_alphanumeric();
        out.push(n);
    }
    out
}

impl Property for C11 {
    type Input = Case;
    fn id(&self) -> &'static str {
        "C11"
    }
    fn rule(&self) -> String {
        "Metamorphic. Generated: (language, text s from the clean/dirty sentence generators with thresholds that make linking words matter, recasing r in {all upper, all lower, capitalised words, per-character by a random mask}) applied only to characters whose case mapping is one-to-one and keeps the lowercase form (ß, İ, final sigma ... are left alone; cases where lower(r(s)) != lower(s) are discarded and counted). Oracle: the tokenizer yields the same number of tokens; occurrences(r(s), t) == occurrences(s, t) in span, text, value bits and flag; text2digits(r(s)) == text2digits(s); the occurrences of own-token streams built from the tokens of s and of r(s), carrying the same separation / not-a-number hints (hint bytes = mask bytes), with all tokens and reduced to word tokens, are equal; rewrite(r(s), t) == splice of the recased tokens with those occurrences (untouched words keep the case they were given). Non-trivial = distinct (s, r) where s has >= 1 occurrence at threshold 0 and r changes at least one letter inside an occurrence or in a linking word lying between two numbers.".into()
    }
    fn strategy(&self, _tier: Tier) -> BoxedStrategy<Case> {
        // thresholds biased to values that hide small numbers, so linking words decide
        let th = prop_oneof![3 => threshold_strategy(), 2 => Just(10f64.to_bits()), 1 => Just(100f64.to_bits())];
        (text_case(25, 10), th, 0u8..4, proptest::collection::vec(any::<u8>(), 1..12)).prop_map(|(tc, th_bits, mode, mask)| Case { lang: tc.lang.clone(), text: tc.text(), th_bits, mode, mask }).boxed()
    }
    fn cases(&self, tier: Tier) -> u64 {
        tier.pick(2_000_000, 25_000_000)
    }
    fn check(&self, c: &Case, obs: &mut Obs) -> Result<(), String> {
        let lg = lang(&c.lang);
        let th = th_of(c.th_bits);
        let s = &c.text;
        let r = recase(s, c.mode, &c.mask);
        if r.to_lowercase() != s.to_lowercase() {
            obs.exclude("case-mapping-not-reversible");
            return Ok(());
        }
        let (t1, o1) = scan(s, lg, th);
        let (t2, o2) = scan(&r, lg, th);
        if t1.len() != t2.len() {
            return Err(format!("[{}] recasing changed the tokenisation: {:?} has {} tokens, {:?} has {}", c.lang, s, t1.len(), r, t2.len()));
        }
        if o1 != o2 {
            return Err(format!("[{}] threshold {}: recasing changed the occurrences\n {:?} -> {:?}\n {:?} -> {:?}", c.lang, fmt_th(c.th_bits), s, o1, r, o2));
        }
        let (v1, v2) = (text2digits(s, lg).ok(), text2digits(&r, lg).ok());
        if v1 != v2 {
            return Err(format!("[{}] text2digits({:?}) = {:?} but text2digits({:?}) = {:?}", c.lang, s, v1, r, v2));
        }
        let out = replace_numbers_in_text(&r, lg, th);
        let want = splice(&t2, &o1);
        if out != want {
            return Err(format!("[{}] rewrite of the recased text {:?} = {:?}, expected {:?} (untouched words keep their case)", c.lang, r, out, want));
        }
        // own-token streams carrying separation / not-a-number hints (hint bytes = the mask bytes), with all tokens and
        // reduced to the word tokens: the paths that only hinted streams reach must not look at the raw text either
        for words_only in [false, true] {
            let mk = |t: &[text2num::verif_hooks::BasicToken]| -> Vec<Tk> {
                let mut v: Vec<Tk> = t.iter().map(|x| x.text.as_str()).filter(|x| !words_only || is_word(x)).enumerate().map(|(i, x)| Tk::new(i, x)).collect();
                apply_hints(&mut v, &c.mask);
                v
            };
            let (s1, s2) = (mk(&t1), mk(&t2));
            if s1.len() != s2.len() || s1.iter().zip(&s2).any(|(a, b)| a.lower != b.lower || a.sep != b.sep || a.nan != b.nan) {
                obs.exclude("per-token-case-mapping-differs");
                continue;
            }
            let (h1, h2) = (occs(find_numbers(s1.iter(), lg, th)), occs(find_numbers(s2.iter(), lg, th)));
            if h1 != h2 {
                return Err(format!("[{}] threshold {}: recasing changed the occurrences of a hinted token stream (hint bytes {:?}, words only: {})\n {:?} -> {:?}\n {:?} -> {:?}", c.lang, fmt_th(c.th_bits), c.mask, words_only, s1.iter().map(|t| t.text.as_str()).collect::<Vec<_>>(), h1, s2.iter().map(|t| t.text.as_str()).collect::<Vec<_>>(), h2));
            }
            obs.label_if(s1.iter().any(|t| t.sep || t.nan || t.pause_after) && !h1.is_empty(), "hinted-stream-with-occurrences");
        }
        // classification
        obs.label(["mode:upper", "mode:lower", "mode:capitalised", "mode:per-char"][c.mode.min(3) as usize]);
        let changed = r != *s;
        obs.label_if(changed, "recasing-changes-text");
        let o0 = scan(s, lg, 0.0).1;
        let mut hit = false;
        for oc in &o0 {
            if t1[oc.start..oc.end].iter().zip(&t2[oc.start..oc.end]).any(|(a, b)| a.text != b.text) {
                hit = true;
            }
        }
        let v = vocab_of(&c.lang);
        for w in o0.windows(2) {
            for k in w[0].end..w[1].start {
                if t1[k].text != t2[k].text && v.linking.contains(&t1[k].lowercase.as_str()) {
                    hit = true;
                    obs.label("recased-linking-word-between-numbers");
                }
            }
        }
        obs.label_if(hit, "recased-letter-in-number-or-link");
        obs.label_if(o1.len() != o0.len(), "threshold-hides-a-number");
        if hit {
            obs.nontrivial(&(&c.lang, s, &r, c.th_bits));
        }
        obs.sample(|| json!({"lang": c.lang, "text": s, "recased": r, "threshold": fmt_th(c.th_bits), "output": out}));
        Ok(())
    }
}
