//! C04 Ordinal round-trip: spelled ordinals become digits plus the ordinal marker.
use super::c01::roundtrip_ex;
use super::ctx::context;
use crate::choose::{Bytes, Canon, Chooser};
use crate::engine::*;
use crate::gen::*;
use crate::spell;
use crate::util::*;
use proptest::prelude::*;
use serde::{Deserialize, Serialize};
use serde_json::json;

#[derive(Clone, Debug, Hash, Serialize, Deserialize)]
pub struct Case {
    pub lang: String,
    pub n: u64,
    /// first byte selects the inflection, the rest the cardinal-stem variants
    pub choices: Vec<u8>,
    pub prefix: String,
    pub suffix: String,
}
pub struct C04;

pub fn ordinal_of(c: &Case) -> Option<(Vec<String>, String)> {
    spell::ordinal(&c.lang, c.n, &mut Bytes::new(&c.choices))
}
/// number of inflections the speller distinguishes through its first pick(s)
fn inflections(lang: &str) -> u8 {
    match lang {
        "en" | "fr" => 5,
        "de" => 5,
        "nl" => 1,
        _ => 4,
    }
}
/// choice bytes that select inflection k and canonical stem
fn inflection_bytes(lang: &str, k: u8) -> Vec<u8> {
    let arity = match lang {
        "en" | "fr" | "de" => 5u32,
        "nl" => 1,
        _ => 4,
    };
    // first pick of the ordinal speller is the inflection in fr/de/es/pt/it
    vec![((k as u32 * 256 + arity - 1) / arity).min(255) as u8]
}

impl Property for C04 {
    type Input = Case;
    fn id(&self) -> &'static str {
        "C04"
    }
    fn rule(&self) -> String {
        "Reference-speller oracle. Generated: (language, rank, choice bytes, prefix, suffix), rank in [1,10^6] (es, pt [1,1999]) from boundary-shaped groups; the ordinal speller (src/spell/<lang>.rs) renders the rank with the selected inflection (en plural -ths/-rds; fr premier/première(s), -ième(s); de declension -te/-ter/-tes/-ten/-tem; it o/a/i/e; es, pt o/a/os/as with every component ordinal) and cardinal-stem variant. Oracle: text2digits(phrase) == Ok(decimal(rank) ++ marker of that inflection); in a sentence at threshold 0 exactly one occurrence covering the phrase with that text, is_ordinal, value == rank; rewrite == prefix text suffix. Enumerated: every rank 1..=3000 (es/pt 1..=1999) x every inflection with the canonical stem (quick); every rank to 10^6 canonical (thorough). Shapes the library documents as deliberately not ordinals (es lone masculine segundo(s), it secondi, it ...dieci ordinals) are excluded by construction and counted. Non-trivial = distinct (language, phrase) with rank > 10.".into()
    }
    fn assumptions(&self) -> Vec<String> {
        vec!["the reference ordinal spellers define the standard spelling; excluded shapes listed in DESIGN.md §2.1".into()]
    }
    fn exhaustive_subdomains(&self, tier: Tier) -> Vec<String> {
        vec![format!("every rank 1..={} (es/pt 1..=1999) x every inflection, canonical stem, no context", tier.pick(3000, 3000)), if tier == Tier::Thorough { "every rank 1..=10^6 (es/pt 1999), canonical".into() } else { "rank 10^6".into() }]
    }
    fn strategy(&self, _tier: Tier) -> BoxedStrategy<Case> {
        lang_strategy()
            .prop_flat_map(|lang| {
                let l2 = lang.clone();
                let max = spell::ordinal_max(&lang);
                (prop_oneof![2 => num_strategy(max), 1 => 0u64..3000], proptest::collection::vec(any::<u8>(), 0..24), prop_oneof![1 => Just((String::new(), String::new())), 2 => context(lang, true)])
                    .prop_map(move |(n, choices, (prefix, suffix))| Case { lang: l2.clone(), n: 1 + n % max, choices, prefix, suffix })
            })
            .boxed()
    }
    fn cases(&self, tier: Tier) -> u64 {
        tier.pick(2_000_000, 25_000_000)
    }
    fn enumerate(&self, tier: Tier, shard: usize, nshards: usize, emit: &mut Emit<Case>) {
        // every inflection for ranks <= 3000
        for i in shard_range(3000 * 7 * 5, shard, nshards) {
            let lang = LANGS[(i % 7) as usize];
            let k = ((i / 7) % 5) as u8;
            let n = 1 + i / 35;
            if k >= inflections(lang) || n > spell::ordinal_max(lang) {
                continue;
            }
            let c = Case { lang: lang.to_string(), n, choices: inflection_bytes(lang, k), prefix: String::new(), suffix: String::new() };
            if !emit(c) {
                return;
            }
        }
        let top = tier.pick(0u64, 1_000_000u64);
        for i in shard_range(top * 7, shard, nshards) {
            let lang = LANGS[(i % 7) as usize];
            let n = 3001 + i / 7;
            if n > spell::ordinal_max(lang) {
                continue;
            }
            if !emit(Case { lang: lang.to_string(), n, choices: vec![], prefix: String::new(), suffix: String::new() }) {
                return;
            }
        }
        if tier == Tier::Quick && shard == 0 {
            for lang in LANGS {
                if spell::ordinal_max(lang) >= 1_000_000 && !emit(Case { lang: lang.to_string(), n: 1_000_000, choices: vec![], prefix: String::new(), suffix: String::new() }) {
                    return;
                }
            }
        }
    }
    fn check(&self, c: &Case, obs: &mut Obs) -> Result<(), String> {
        let Some((words, marker)) = ordinal_of(c) else {
            obs.exclude("shape-documented-as-not-an-ordinal");
            return Ok(());
        };
        let expect = format!("{}{}", c.n, marker);
        let allow = c.lang == "fr" && words.iter().any(|w| w == "neuf");
        let ran = roundtrip_ex(&c.lang, &words, &expect, c.n as f64, true, &c.prefix, &c.suffix, allow, true).map_err(|e| format!("[{} rank={} choice bytes {:?}] {}", c.lang, c.n, c.choices, e))?;
        if !ran {
            obs.exclude("fr-neuf-heuristic-set-aside");
            return Ok(());
        }
        obs.label(&format!("lang-{}", c.lang));
        obs.label(&format!("marker-{}-{}", c.lang, marker));
        obs.label(match c.n {
            1..=10 => "rank<=10",
            11..=99 => "rank<100",
            100..=1999 => "rank<2000",
            _ => "rank>=2000",
        });
        obs.label_if(!c.prefix.is_empty() || !c.suffix.is_empty(), "in-sentence-context");
        if c.n > 10 {
            obs.nontrivial(&(&c.lang, &words));
        }
        let _ = Canon.pick(1);
        obs.sample(|| json!({"lang": c.lang, "rank": c.n, "text": format!("{}{}{}", c.prefix, words.join(" "), c.suffix), "expect": expect}));
        Ok(())
    }
}
