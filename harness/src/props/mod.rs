pub mod c12;

use crate::engine::{run, Opts};

pub fn dispatch(id: &str, opts: &Opts) -> i32 {
    match id {
        "C12" => run(&c12::C12, opts),
        _ => {
            eprintln!("unknown property {}", id);
            2
        }
    }
}
