pub mod common;
pub mod ctx;
pub mod c01;
pub mod c02;
pub mod c03;
pub mod c04;
pub mod c05;
pub mod c06;
pub mod c07;
pub mod c08;
pub mod c09;
pub mod c10;
pub mod c11;
pub mod c12;
pub mod c13;
pub mod c14;
pub mod c15;
pub mod c16;
pub mod c17;
pub mod c18;

use crate::engine::{run, Opts};

pub fn dispatch(id: &str, opts: &Opts) -> i32 {
    match id {
        "C01" => run(&c01::C01, opts),
        "C02" => run(&c02::C02, opts),
        "C03" => run(&c03::C03, opts),
        "C04" => run(&c04::C04, opts),
        "C05" => run(&c05::C05, opts),
        "C06" => run(&c06::C06, opts),
        "C07" => run(&c07::C07, opts),
        "C08" => run(&c08::C08, opts),
        "C09" => run(&c09::C09, opts),
        "C10" => run(&c10::C10, opts),
        "C11" => run(&c11::C11, opts),
        "C12" => run(&c12::C12, opts),
        "C13" => run(&c13::C13, opts),
        "C14" => run(&c14::C14, opts),
        "C15" => run(&c15::C15, opts),
        "C16" => run(&c16::C16, opts),
        "C17" => run(&c17::C17, opts),
        "C18" => run(&c18::C18, opts),
        _ => {
            eprintln!("unknown property {}", id);
            2
        }
    }
}
