pub mod common;
pub mod ctx;
pub mod c01;
pub mod c02;
pub mod c03;
pub mod c04;
pub mod c05;
pub mod c06;
pub mod c07;
pub mod c08;
pub mod c12;
pub mod c16;

use crate::engine::{run, Opts};

pub fn dispatch(id: &str, opts: &Opts) -> i32 {
    match id {
        "C01" => run(&c01::C01, opts),
        "C02" => run(&c02::C02, opts),
        "C03" => run(&c03::C03, opts),
        "C04" => run(&c04::C04, opts),
        "C05" => run(&c05::C05, opts),
        "C06" => run(&c06::C06, opts),
        "C07" => run(&c07::C07, opts),
        "C08" => run(&c08::C08, opts),
        "C12" => run(&c12::C12, opts),
        "C16" => run(&c16::C16, opts),
        _ => {
            eprintln!("unknown property {}", id);
            2
        }
    }
}
