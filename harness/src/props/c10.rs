//! C10 Context independence: unrelated parts of a text are converted independently.
use crate::choose::{Bytes, Canon};
use crate::engine::*;
use crate::gen::*;
use crate::spell;
use crate::util::*;
use proptest::prelude::*;
use serde::{Deserialize, Serialize};
use serde_json::json;
use text2num::{replace_numbers_in_text, LangInterpreter};

#[derive(Clone, Debug, Hash, Serialize, Deserialize)]
pub struct Case {
    pub lang: String,
    /// "asb": A S B; "punct": spell(a) p spell(b)
    pub shape: String,
    pub a_text: String,
    pub sep: String,
    pub b_text: String,
    pub th_bits: u64,
    pub a: u64,
    pub b: u64,
    pub ca: Vec<u8>,
    pub cb: Vec<u8>,
}
pub struct C10;

const PUNCT_SEPS: [&str; 16] = [", ", "; ", ": ", "! ", " / ", " ( ", "… ", ". ", ",", "?", " ; ", ") ", "’ ", "” “", " « ", "\u{a0}» "];

/// ordinary words usable in a strong separator: not number words, not linking words, not the
/// decimal-separator word, and not the French determiners / `numéro` the documented neuf heuristic keys on
fn separator_words(lang: &str) -> Vec<&'static str> {
    let v = vocab_of(lang);
    v.fillers.iter().copied().filter(|w| !matches!(*w, "le" | "du" | "l'" | "un" | "numéro" | "point" | "o'clock") && *w != v.sep && *w != v.conj && !v.linking.contains(w)).collect()
}

impl Property for C10 {
    type Input = Case;
    fn id(&self) -> &'static str {
        "C10"
    }
    fn rule(&self) -> String {
        "Metamorphic. Shape asb: A and B from the clean sentence generator (number words of every class, speller phrases, ordinals, conjunction/separator/linking/ordinary words, punctuation; for French also the determiner+neuf shapes of the documented new/nine heuristic, for English `o`), S = ' ' + 3 or 4 ordinary words (no number, linking, separator words; not the French determiners un/le/du/l'/numéro) + '. '; any threshold: rewrite(A S B, t) == rewrite(A, t) ++ S ++ rewrite(B, t). Shape punct: rewrite(spell(a) p spell(b), 0) == a p b for a, b < 10^12 in random variants and p in {', ', '; ', ': ', '! ', ' / ', ' ( ', '… ', '. ', ',', '?', ' ; ', ') ', typographic quotes}. Enumerated: every punctuation mark / symbol (all non-alphanumeric, non-whitespace, non-control chars of ASCII, Latin-1 incl. U+00D7 / U+00F7, General Punctuation, currency, letterlike, arrows, mathematical, technical, box / geometric / dingbat, supplemental punctuation, CJK and full-width punctuation, emoticons; '-' and ''' excepted) x glued / spaced on both / either side x (20,5), (100,2), (3000,400) x 7 languages. Whole-run procedure: documents of W ordinary words (2W tokens just above 2^10..2^16, 1000, 10 000, 50 000; thorough up to 2^20) followed by a tail in which small numbers are linked across punctuation / a linking word: rewrite(prefix tail, t) == prefix ++ rewrite(tail, t) for t in {10, 0}. Non-trivial = distinct asb cases where A contains a number and B contains a word whose reading can depend on earlier state (fr neuf after le/du/l'/un, en o, a leading small number at t > 0) or A ends with the conjunction / separator word; plus all punct cases with both numbers >= 20.".into()
    }
    fn assumptions(&self) -> Vec<String> {
        vec!["the French determiners un/le/du/l' and `numéro` act at distance <= 3 by documented design (new/nine heuristic), so they are not 'ordinary' separator words".into()]
    }
    fn exhaustive_subdomains(&self, _tier: Tier) -> Vec<String> {
        vec![format!("punct: all {} punctuation marks / symbols of the listed Unicode blocks x 4 spacings x 3 number pairs x 7 languages", super::common::symbol_chars().len())]
    }
    fn strategy(&self, _tier: Tier) -> BoxedStrategy<Case> {
        let asb = lang_strategy().prop_flat_map(|lang| {
            let l2 = lang.clone();
            (sentence_for(lang.clone(), Mode::Clean, 8), sentence_for(lang.clone(), Mode::Clean, 8), proptest::collection::vec(any::<u16>(), 3..=4), threshold_strategy(), 0u8..8).prop_map(move |(a, b, ws, th_bits, tail)| {
                let sw = separator_words(&l2);
                let v = vocab_of(&l2);
                let mut sep = String::from(" ");
                sep.push_str(&ws.iter().map(|i| sw[idx(*i, sw.len())]).collect::<Vec<_>>().join(" "));
                sep.push_str(". ");
                let mut a_text = a.render();
                // force the shapes where state could leak: A ending on the conjunction / separator word
                let mut b_text = b.render();
                let mut th_bits = th_bits;
                match tail {
                    0 => a_text = format!("{} {}", a_text.trim_end(), v.conj),
                    1 => a_text = format!("{} {}", a_text.trim_end(), v.sep),
                    2 => {
                        // A carries an unbalanced quote / bracket glued to a word; B is a chain of small numbers
                        // held together by a linking word (one with an apostrophe where the language has one)
                        let opener = ["'", "\"", "(", "‘", "«"][ws[0] as usize % 5];
                        let w0 = sw[idx(ws[1], sw.len())];
                        a_text = if ws[2] & 1 == 0 { format!("{}{} {}", opener, w0, a_text) } else { format!("{} {}{}", a_text.trim_end(), opener, w0) };
                        let link = v.linking.iter().find(|w| w.contains('\'')).copied().unwrap_or(v.linking[idx(ws[2], v.linking.len())]);
                        let d = |n: u64| crate::spell::cardinal(&l2, n, &mut crate::choose::Canon).join(" ");
                        b_text = format!("{} {} {} {} {}", d(2 + (ws[0] % 7) as u64), v.linking[idx(ws[1], v.linking.len())], d(2 + (ws[1] % 7) as u64), link, d(2 + (ws[2] % 7) as u64));
                        th_bits = 10f64.to_bits();
                    }
                    3 => {
                        // the words the language's ambiguity rules look at, placed right across the separator: the last
                        // word of A is one the rule keys on, the first word of B is the ambiguous one
                        match l2.as_str() {
                            "fr" => {
                                a_text = format!("{} {}", a_text.trim_end(), ["le", "du", "un", "l'", "vingt et un"][ws[0] as usize % 5]);
                                b_text = format!("neuf {}", b_text.trim_start());
                            }
                            "en" => {
                                a_text = format!("{} {}", a_text.trim_end(), v.classes[idx(ws[0], 3)][idx(ws[1], v.classes[idx(ws[0], 3)].len())]);
                                b_text = format!("o {}", b_text.trim_start());
                            }
                            _ => {}
                        }
                    }
                    _ => {}
                }
                Case { lang: l2.clone(), shape: "asb".into(), a_text, sep, b_text, th_bits, a: 0, b: 0, ca: vec![], cb: vec![] }
            })
        });
        let punct = (lang_strategy(), num_strategy(1_000_000_000_000), num_strategy(1_000_000_000_000), choices(), choices(), 0usize..PUNCT_SEPS.len())
            .prop_map(|(lang, a, b, ca, cb, p)| Case { lang, shape: "punct".into(), a_text: String::new(), sep: PUNCT_SEPS[p].to_string(), b_text: String::new(), th_bits: 0, a, b, ca, cb });
        prop_oneof![4 => asb, 1 => punct].boxed()
    }
    fn cases(&self, tier: Tier) -> u64 {
        tier.pick(2_000_000, 25_000_000)
    }
    fn enumerate(&self, _tier: Tier, shard: usize, nshards: usize, emit: &mut Emit<Case>) {
        // every punctuation mark / symbol of the listed Unicode blocks, glued or spaced, between two numbers that
        // would combine without it, in every language
        let syms = super::common::symbol_chars();
        const PAIRS: [(u64, u64); 3] = [(20, 5), (100, 2), (3000, 400)];
        for i in shard_range(syms.len() as u64 * 7 * 4 * 3, shard, nshards) {
            let ch = syms[(i / 84) as usize];
            let lang = LANGS[(i % 7) as usize].to_string();
            let sep = match (i / 7) % 4 {
                0 => ch.to_string(),
                1 => format!(" {} ", ch),
                2 => format!("{} ", ch),
                _ => format!(" {}", ch),
            };
            let (a, b) = PAIRS[((i / 28) % 3) as usize];
            if !emit(Case { lang, shape: "punct".into(), a_text: String::new(), sep, b_text: String::new(), th_bits: 0, a, b, ca: vec![], cb: vec![] }) {
                return;
            }
        }
    }
    fn extra(&self, tier: Tier, _seed: u64, obs: &mut Obs) -> Result<(), (String, serde_json::Value)> {
        // long documents: a prefix of many ordinary words must not change how the tail is read
        use super::common::{long_doc, long_doc_sizes, long_doc_tails};
        let jobs: Vec<(&'static str, usize, usize, String)> = LANGS
            .iter()
            .flat_map(|l| long_doc_sizes(tier == Tier::Thorough).into_iter().flat_map(move |sz| [0usize, 1, 3].into_iter().flat_map(move |sl| long_doc_tails(l).into_iter().map(move |t| (*l, sz, sl, t)))))
            .collect();
        let bad: std::sync::Mutex<Option<(String, serde_json::Value)>> = std::sync::Mutex::new(None);
        let n = std::sync::atomic::AtomicU64::new(0);
        std::thread::scope(|s| {
            for th in 0..16usize {
                let (jobs, bad, n) = (&jobs, &bad, &n);
                s.spawn(move || {
                    for (i, (l, sz, sl, tail)) in jobs.iter().enumerate() {
                        if i % 16 != th || bad.lock().unwrap().is_some() {
                            continue;
                        }
                        let lg = lang(l);
                        let (prefix, tail) = long_doc(l, *sz, *sl, tail);
                        let doc = format!("{}{}", prefix, tail);
                        for t in [10.0f64, 0.0] {
                            let r = std::panic::catch_unwind(|| (replace_numbers_in_text(&doc, lg, t), replace_numbers_in_text(&tail, lg, t)));
                            let Ok((out, rt)) = r else { continue };
                            n.fetch_add(1, std::sync::atomic::Ordering::Relaxed);
                            if out.len() != prefix.len() + rt.len() || !out.starts_with(&prefix) || !out.ends_with(&rt) {
                                let shown: String = out.chars().rev().take(80).collect::<Vec<_>>().into_iter().rev().collect();
                                *bad.lock().unwrap() = Some((
                                    format!("[{}] threshold {}: after {} ordinary words ({} tokens) the tail {:?} is rewritten as {:?}, on its own as {:?}", l, t, sz / 2 + sl, 2 * (sz / 2 + sl), tail, shown, rt),
                                    json!({"lang": l, "shape": "asb", "a_text": format!("<{} x {:?}>", sz / 2 + sl, vocab_of(l).fillers[0]), "sep": " ", "b_text": tail, "th_bits": t.to_bits(), "a": 0, "b": 0, "ca": [], "cb": []}),
                                ));
                                return;
                            }
                        }
                    }
                });
            }
        });
        obs.evaluations += n.load(std::sync::atomic::Ordering::Relaxed);
        obs.label("long-document-prefix-independence");
        match bad.into_inner().unwrap() {
            Some(e) => Err(e),
            None => Ok(()),
        }
    }
    fn check(&self, c: &Case, obs: &mut Obs) -> Result<(), String> {
        let lg = lang(&c.lang);
        let l = c.lang.as_str();
        if c.shape == "punct" {
            let sp = |n: u64, ch: &Vec<u8>| if ch.is_empty() { spell::cardinal_nk(l, n, &mut Canon) } else { spell::cardinal_nk(l, n, &mut Bytes::new(ch)) };
            let text = format!("{}{}{}", sp(c.a, &c.ca).join(" "), c.sep, sp(c.b, &c.cb).join(" "));
            let want = format!("{}{}{}", c.a, c.sep, c.b);
            let out = replace_numbers_in_text(&text, lg, 0.0);
            if out != want {
                return Err(format!("[{}] punctuation must keep two numbers apart: {:?} -> {:?}, expected {:?}", l, text, out, want));
            }
            if PUNCT_SEPS.contains(&c.sep.as_str()) {
                obs.label(&format!("punct:{:?}", c.sep));
            } else {
                obs.label("punct:enumerated-symbol");
            }
            if c.a >= 20 && c.b >= 20 {
                obs.nontrivial(&(l, &text));
            }
            obs.sample(|| json!({"lang": l, "text": text, "expect": want}));
            return Ok(());
        }
        let th = th_of(c.th_bits);
        // a separator word that the language (now) publishes as a linking word makes S not "strong"
        if c.sep.split(|ch: char| !ch.is_alphanumeric()).filter(|w| !w.is_empty()).any(|w| lg.is_linking(&w.to_lowercase()) || text2num::text2digits(w, lg).is_ok()) {
            obs.exclude("separator-word-is-linking-or-number-in-this-tree");
            return Ok(());
        }
        let whole = format!("{}{}{}", c.a_text, c.sep, c.b_text);
        let out = replace_numbers_in_text(&whole, lg, th);
        let ra = replace_numbers_in_text(&c.a_text, lg, th);
        let rb = replace_numbers_in_text(&c.b_text, lg, th);
        let want = format!("{}{}{}", ra, c.sep, rb);
        if out != want {
            return Err(format!("[{}] threshold {}: rewriting A S B differs from rewriting A and B separately\n A   {:?} -> {:?}\n S   {:?}\n B   {:?} -> {:?}\n ASB -> {:?}", l, fmt_th(c.th_bits), c.a_text, ra, c.sep, c.b_text, rb, out));
        }
        let v = vocab_of(l);
        let a_has_num = ra != c.a_text;
        let b_low = c.b_text.to_lowercase();
        let b_words: Vec<&str> = b_low.split(|ch: char| !(ch.is_alphanumeric() || ch == '\'' || ch == '-')).filter(|w| !w.is_empty()).collect();
        let fr_neuf = l == "fr" && b_words.iter().any(|w| *w == "neuf") && b_words.iter().any(|w| matches!(*w, "le" | "du" | "l'" | "un"));
        let en_o = l == "en" && b_words.iter().any(|w| *w == "o");
        let a_tail = c.a_text.trim_end().to_lowercase();
        let dangling = a_tail.ends_with(v.conj) || a_tail.ends_with(v.sep);
        let lead_small = th > 0.0 && rb != replace_numbers_in_text(&c.b_text, lg, 0.0);
        obs.label_if(a_has_num, "A-has-number");
        obs.label_if(fr_neuf, "B:fr-neuf-with-determiner");
        obs.label_if(en_o, "B:en-o");
        obs.label_if(dangling, "A-ends-with-conj/sep");
        obs.label_if(lead_small, "B:threshold-hides-a-number");
        obs.label_if(rb != c.b_text, "B-has-number");
        if (a_has_num && (fr_neuf || en_o || lead_small)) || (dangling && rb != c.b_text) {
            obs.nontrivial(&(l, &whole, c.th_bits));
        }
        obs.sample(|| json!({"lang": l, "A": c.a_text, "S": c.sep, "B": c.b_text, "threshold": fmt_th(c.th_bits), "output": out}));
        Ok(())
    }
}
