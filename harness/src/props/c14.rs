//! C14 Interpreters are stateless, pure and shareable across threads; calls are silent.
use crate::choose::{Bytes, Canon};
use crate::engine::*;
use crate::gen::*;
use crate::spell;
use crate::util::*;
use proptest::prelude::*;
use proptest::strategy::ValueTree;
use proptest::test_runner::{Config, RngSeed, TestRunner};
use serde::{Deserialize, Serialize};
use serde_json::json;
use std::io::Read;
use text2num::{find_numbers, find_numbers_iter, get_interpreter_for, replace_numbers_in_stream, replace_numbers_in_text, text2digits, LangInterpreter, Language};

#[derive(Clone, Debug, Hash, Serialize, Deserialize)]
pub struct Call {
    pub f: u8,
    pub lang: String,
    pub text: String,
    pub th_bits: u64,
    /// the language the text was generated for (the call may be made in another one)
    #[serde(default)]
    pub native: String,
}
pub type History = Vec<Call>;
pub struct C14;

pub const NFUNCS: u8 = 11;
/// one public call, result rendered as a string
pub fn perform(lg: &Language, c: &Call) -> String {
    // a panic is C03's business; here it is just another (comparable) outcome
    match std::panic::catch_unwind(std::panic::AssertUnwindSafe(|| perform_inner(lg, c))) {
        Ok(s) => s,
        Err(_) => "<panicked>".to_string(),
    }
}
fn perform_inner(lg: &Language, c: &Call) -> String {
    let th = th_of(c.th_bits);
    match c.f % NFUNCS {
        0 => format!("{:?}", text2digits(&c.text, lg)),
        1 => replace_numbers_in_text(&c.text, lg, th),
        2 => {
            let t = annotated(&c.text, lg);
            format!("{:?}", occs(find_numbers(t.iter(), lg, th)))
        }
        3 => {
            let t = tokens_of(&c.text);
            format!("{:?}", occs(find_numbers_iter(t.iter(), lg, th).collect()))
        }
        4 => {
            let s: Vec<Tk> = c.text.split_whitespace().enumerate().map(|(i, w)| Tk::new(i, w)).collect();
            format!("{:?}", replace_numbers_in_stream(s, lg, th).iter().map(|t| (t.ids.clone(), t.text.clone())).collect::<Vec<_>>())
        }
        5 => {
            let lower = c.text.to_lowercase();
            format!("{:?}", lg.exec_group(lower.split_whitespace()).map(|b| (b.to_string(), b.flags, format!("{:?}", b.marker))))
        }
        6 => format!("{:?}", annotated(&c.text, lg).iter().map(|t| t.nan).collect::<Vec<_>>()),
        // a lazy search abandoned after its first / second result (the iterator is dropped mid-stream)
        8 | 9 => {
            let t = tokens_of(&c.text);
            let k = (c.f % NFUNCS - 7) as usize;
            format!("{:?}", occs(find_numbers_iter(t.iter(), lg, th).take(k).collect()))
        }
        // a user-supplied interpreter (wrapping the built-in one) that panics on a marker word, caught by the caller:
        // a panic in user code must not change what later calls return
        10 => {
            let p = Panicky(lg);
            let t = format!("{} xqpanic", c.text);
            match std::panic::catch_unwind(std::panic::AssertUnwindSafe(|| replace_numbers_in_text(&t, &p, th))) {
                Ok(s) => s,
                Err(_) => "<user interpreter panicked>".to_string(),
            }
        }
        _ => format!("{:?}", get_interpreter_for(&c.lang).map(|l| replace_numbers_in_text(&c.text, &l, th))),
    }
}
/// a third-party interpreter: delegates to a built-in one, panics on the word `xqpanic`
pub struct Panicky<'a>(pub &'a Language);
impl LangInterpreter for Panicky<'_> {
    fn apply(&self, w: &str, b: &mut text2num::digit_string::DigitString) -> Result<(), text2num::error::Error> {
        if w == "xqpanic" {
            panic!("user interpreter failure");
        }
        self.0.apply(w, b)
    }
    fn apply_decimal(&self, w: &str, b: &mut text2num::digit_string::DigitString) -> Result<(), text2num::error::Error> {
        self.0.apply_decimal(w, b)
    }
    fn get_morph_marker(&self, w: &str) -> text2num::lang::MorphologicalMarker {
        self.0.get_morph_marker(w)
    }
    fn is_decimal_sep(&self, w: &str) -> bool {
        self.0.is_decimal_sep(w)
    }
    fn format_and_value(&self, b: &text2num::digit_string::DigitString) -> (String, f64) {
        self.0.format_and_value(b)
    }
    fn format_decimal_and_value(&self, i: &text2num::digit_string::DigitString, d: &text2num::digit_string::DigitString) -> (String, f64) {
        self.0.format_decimal_and_value(i, d)
    }
    fn is_linking(&self, w: &str) -> bool {
        self.0.is_linking(w)
    }
}
fn call_strategy() -> BoxedStrategy<Call> {
    let text = prop_oneof![
        4 => sentence_strategy(Mode::Clean, 8).prop_map(|(l, s)| (l, s.render())),
        2 => sentence_strategy(Mode::Dirty, 8).prop_map(|(l, s)| (l, s.render())),
        2 => (lang_strategy(), num_strategy(1_000_000_000_000), choices()).prop_map(|(l, n, ch)| {
            let p = spell::cardinal(&l, n, &mut Bytes::new(&ch)).join(" ");
            (l, p)
        }),
    ];
    (0u8..NFUNCS, text, threshold_strategy(), 0u8..4, lang_strategy()).prop_map(|(f, (lang, text), th_bits, cross, other)| Call { f, native: lang.clone(), lang: if cross == 0 { other } else { lang }, text, th_bits }).boxed()
}
/// two (or three) almost identical long one-word numbers, validated back to back: same length and a long
/// common prefix (what a memo keyed on a truncated or hashed form of the last word would confuse)
fn near_duplicates() -> BoxedStrategy<Vec<Call>> {
    (0usize..7, num_strategy(1_000_000_000_000), 1usize..14, 0u8..4, any::<bool>()).prop_map(|(li, n, back, f, glue)| {
        let l = LANGS[li];
        let words = spell::cardinal(l, n.max(1_000_000), &mut Canon);
        // A: the spelled number, optionally glued into one long word (the oracle is differential, so it does
        // not matter whether the library accepts the glued form); B: A with one ASCII letter near the end
        // replaced by another one - same byte length, same long prefix, different word
        let a: String = if glue { words.concat() } else { words.join(" ") };
        let mut bytes = a.clone().into_bytes();
        let mut k = bytes.len().saturating_sub(back);
        while k > 0 && !bytes[k].is_ascii_lowercase() {
            k -= 1;
        }
        if bytes[k].is_ascii_lowercase() {
            bytes[k] = if bytes[k] == b'z' { b'a' } else { bytes[k] + 1 };
        }
        let b = String::from_utf8(bytes).unwrap_or_else(|_| a.clone());
        let mut v = vec![];
        for t in [&a, &b, &a, &b] {
            v.push(Call { f: if f == 0 { 1 } else { 0 }, lang: l.to_string(), text: t.clone(), th_bits: 0, native: l.to_string() });
        }
        v
    }).boxed()
}
fn history_strategy(maxlen: usize) -> BoxedStrategy<History> {
    // a few distinct calls, repeated and interleaved, so that a call is seen after other calls
    (proptest::collection::vec(call_strategy(), 2..12), proptest::collection::vec(any::<u16>(), 4..maxlen))
        .prop_map(|(pool, order)| order.into_iter().map(|i| pool[idx(i, pool.len())].clone()).collect::<History>())
        .prop_flat_map(|h| {
            let h2 = h.clone();
            prop_oneof![
                3 => Just(h),
                1 => (near_duplicates(), any::<u16>()).prop_map(move |(nd, at)| {
                    let mut h = h2.clone();
                    let k = idx(at, h.len() + 1);
                    for (j, c) in nd.into_iter().enumerate() {
                        h.insert(k + j, c);
                    }
                    h
                }),
            ]
        })
        .boxed()
}

/// the workload of the silence check: (language, text) items touching every vocabulary arm of every
/// language; each is run through every public function at two thresholds
pub fn silent_items(seed: u64) -> Vec<(String, String)> {
    let mut items: Vec<(String, String)> = vec![];
    for l in LANGS {
        let mut add = |text: String| items.push((l.to_string(), text));
        for k in (0..2000u64).chain([10_000, 21_000, 100_000, 1_000_000, 2_000_000, 1_000_000_000, 3_000_000_000, 999_999_999_999]) {
            add(spell::cardinal(l, k, &mut Canon).join(" "));
            if k % 7 == 0 {
                let bytes = [(k % 251) as u8, (k % 241) as u8, (k % 239) as u8, 200, 100, 255, 3, 77, 190, 254];
                add(spell::cardinal(l, k, &mut Bytes::new(&bytes)).join(" "));
            }
        }
        for k in 1..200u64 {
            for infl in [0u8, 70, 140, 255] {
                if let Some((w, _)) = spell::ordinal(l, k, &mut Bytes::new(&[infl])) {
                    add(w.join(" "));
                }
            }
        }
        for d in ["5", "05", "141", "007", "90"] {
            let mut w = spell::cardinal(l, 3, &mut Canon);
            w.push(spell::decimal_sep(l).to_string());
            w.extend(spell::fraction(l, d, &mut Canon));
            add(w.join(" "));
        }
        let v = vocab_of(l);
        for w in v.number_words.iter().chain(v.classes.iter().flatten()) {
            add(w.clone());
        }
        for w in v.linking.iter().chain(v.fillers.iter()) {
            add(format!("{} {} {}", v.classes[0][0], w, v.classes[0][1]));
        }
        // adjacent pairs of numbers in several spelling styles (exercises the refusal / overlap branches that
        // no single valid number reaches)
        {
            let ns = [5u64, 14, 20, 21, 100, 1000, 14_000, 200_000, 1_000_000, 21_000_000];
            let styles: [&[u8]; 4] = [&[], &[128, 255, 255, 255, 255, 255, 255, 255], &[64, 200, 30, 250, 0, 255, 90, 17], &[255, 0, 255, 0, 255, 0, 255, 0]];
            let mut phrases: Vec<String> = vec![];
            for n in ns {
                for st in styles {
                    let p = spell::cardinal(l, n, &mut Bytes::new(st)).join(" ");
                    if !phrases.contains(&p) {
                        phrases.push(p);
                    }
                }
            }
            for a in &phrases {
                for b in &phrases {
                    add(format!("{} {}", a, b));
                }
            }
        }
        // glued pairs of vocabulary words (one token): the compound-splitting interpreters take paths here that
        // no correct spelling reaches
        {
            let pool: Vec<&String> = v.number_words.iter().step_by((v.number_words.len() / 45).max(1)).collect();
            for a in &pool {
                for b in &pool {
                    add(format!("{}{}", a, b));
                }
            }
        }
        // numerals beyond 2^53 (not exactly representable as f64), built from the largest scale words
        let top: &[&str] = match l { "de" => &["millionen", "billion"], "it" => &["milioni", "bilioni"], "nl" => &["miljoen", "biljoen"], "pt" => &["milhões", "biliões"], "en" => &["million", "billion"], "fr" => &["millions", "milliard"], _ => &["mil", "millones"] };
        for head in [2u64, 10, 12, 19, 123, 999] {
            for tail in [1u64, 3, 7, 21, 999] {
                let (h, t) = (spell::cardinal(l, head, &mut Canon).join(" "), spell::cardinal(l, tail, &mut Canon).join(" "));
                add(format!("{} {} {} {}", h, top[0], top[1], t));
                add(format!("{} {} {}", h, top[1], t));
            }
        }
    }
    // generated sentences
    let mut runner = TestRunner::new(Config { rng_seed: RngSeed::Fixed(hash_of(&(seed, "silent"))), failure_persistence: None, ..Config::default() });
    let strat = call_strategy();
    for _ in 0..20_000 {
        let c = strat.new_tree(&mut runner).unwrap().current();
        items.push((c.lang, c.text));
    }
    items
}
pub fn silent_workload(seed: u64, from: usize, to: usize) -> u64 {
    let items = silent_items(seed);
    let langs: Vec<Language> = LANGS.iter().map(|l| new_lang(l)).collect();
    let mut n = 0u64;
    for (l, text) in items.iter().take(to.min(items.len())).skip(from) {
        for f in 0..NFUNCS {
            for th in [0.0f64, 10.0] {
                let _ = perform(&langs[lang_index(l)], &Call { f, lang: l.clone(), text: text.clone(), th_bits: th.to_bits(), native: l.clone() });
                n += 1;
            }
        }
    }
    n
}
/// run the child on items [from, to): returns (stdout bytes, stderr bytes, finished, calls)
fn silent_child(seed: u64, from: usize, to: usize) -> (Vec<u8>, Vec<u8>, bool, u64) {
    let exe = std::env::current_exe().unwrap_or_else(|_| infra("cannot locate own executable for the silence check"));
    let status_file = std::env::temp_dir().join(format!("t2n-verif-silent-{}-{}-{}-{}.status", std::process::id(), seed, from, to));
    let _ = std::fs::remove_file(&status_file);
    let mut child = std::process::Command::new(exe)
        .arg("--silent-worker")
        .arg(&status_file)
        .arg(from.to_string())
        .arg(to.to_string())
        .env("VERIF_SEED", seed.to_string())
        .stdin(std::process::Stdio::null())
        .stdout(std::process::Stdio::piped())
        .stderr(std::process::Stdio::piped())
        .spawn()
        .unwrap_or_else(|e| infra(&format!("cannot spawn the silent worker: {}", e)));
    let (mut so, mut se) = (child.stdout.take().unwrap(), child.stderr.take().unwrap());
    let t_err = std::thread::spawn(move || {
        let mut b = Vec::new();
        let _ = se.read_to_end(&mut b);
        b
    });
    let mut out = Vec::new();
    let _ = so.read_to_end(&mut out);
    let err = t_err.join().unwrap_or_default();
    let st = child.wait().unwrap_or_else(|e| infra(&format!("silent worker: {}", e)));
    let status = std::fs::read_to_string(&status_file).unwrap_or_default();
    let _ = std::fs::remove_file(&status_file);
    let ok = st.success() && status.starts_with("done ");
    let n = status.get(5..).and_then(|x| x.trim().parse().ok()).unwrap_or(0);
    (out, err, ok, n)
}

impl Property for C14 {
    type Input = History;
    fn id(&self) -> &'static str {
        "C14"
    }
    fn rule(&self) -> String {
        "History independence (generated, shrinkable): histories of 4..300 public calls (text2digits, replace_numbers_in_text, find_numbers on annotated tokens, find_numbers_iter drained, find_numbers_iter abandoned after its first or second result, replace_numbers_in_stream, exec_group, basic_annotate, get_interpreter_for+rewrite) drawn from a pool of 2..12 distinct calls over all seven languages, clean/dirty sentences and speller phrases, any threshold, repeated and interleaved, one history in four with a run of near-duplicate long inputs inserted (a spelled number >= 10^6, optionally glued into one word, alternating with a copy in which one letter near the end is changed: same length, long common prefix), on ONE set of shared interpreters; every result must equal the result of the same call on a freshly constructed interpreter. Sharing across threads (whole-run procedures): 16 threads share one &Language per language and replay generated call lists concurrently, every result must equal the single-threaded result on a fresh interpreter; cold start: 300 (thorough 3000) rounds in which 8 threads released by a barrier make the very first calls on a freshly built interpreter; hot loop: 16 threads hammer 8 long compound numbers per language on one interpreter; oversubscription: 384 (thorough 768) threads released by a barrier, most of them preempted in mid-call. Type level: a separate crate asserts Language and the seven concrete types are Send + Sync + 'static (./check C14 builds it first). Silence: the harness re-executes itself as a child with stdout and stderr piped; the child runs a workload through every public function that covers the spellings of all n < 2000, all scale words, ordinals < 200 in every inflection, decimals, every vocabulary word, and 20 000 generated calls; both pipes must stay empty. Non-trivial = distinct histories with >= 2 languages and a repeated call after a different call.".into()
    }
    fn assumptions(&self) -> Vec<String> {
        vec![
            "thread interleavings are stressed (16 threads, real scheduler), not enumerated or controlled; the Send+Sync compile check and the history test guard the absence of unsynchronised interior state".into(),
            "silence is observed on the process's fd 1 and 2 of a child process running the workload".into(),
        ]
    }
    fn strategy(&self, tier: Tier) -> BoxedStrategy<History> {
        history_strategy(tier.pick(120, 300))
    }
    fn cases(&self, tier: Tier) -> u64 {
        tier.pick(30_000, 400_000)
    }
    fn extra(&self, tier: Tier, seed: u64, obs: &mut Obs) -> Result<(), (String, serde_json::Value)> {
        // --- calls that ended in a panic of user code (first thing in the process, before any such panic) -------
        // battery of ordinary calls -> user-supplied interpreters panic inside every entry point (caught, as a
        // host application would) -> the same battery again, on the same interpreters and on fresh ones
        {
            let mut runner = TestRunner::new(Config { rng_seed: RngSeed::Fixed(hash_of(&(seed, "c14-after-panic"))), failure_persistence: None, ..Config::default() });
            let strat = call_strategy();
            let mut battery: Vec<Call> = Vec::new();
            while battery.len() < tier.pick(6_000usize, 40_000usize) {
                let c = strat.new_tree(&mut runner).unwrap().current();
                if c.f % NFUNCS != 10 {
                    battery.push(c);
                }
            }
            // texts the annotation pass has something to say about, through every text-level entry point
            for (l, t) in [("fr", "le logement neuf"), ("fr", "un camion neuf"), ("fr", "du pain neuf ici"), ("fr", "l' appartement presque neuf"), ("fr", "neuf"), ("fr", "le neuf"), ("en", "o"), ("en", "the o ring"), ("en", "two o five"), ("en", "o two"), ("pt", "o carro"), ("es", "uno o dos"), ("it", "un o due"), ("de", "ein o zwei"), ("nl", "een o twee")] {
                for f in [0u8, 1, 2, 3, 4, 6, 7, 8] {
                    for th in [0.0f64, 10.0] {
                        battery.push(Call { f, lang: l.to_string(), native: l.to_string(), text: t.to_string(), th_bits: th.to_bits() });
                    }
                }
            }
            let shared: Vec<Language> = LANGS.iter().map(|l| new_lang(l)).collect();
            let before: Vec<String> = battery.iter().map(|c| perform(&shared[lang_index(&c.lang)], c)).collect();
            let mut panics = 0u64;
            for (li, l) in LANGS.iter().enumerate() {
                let lg = &shared[li];
                let p = Panicky(lg);
                let num = spell::cardinal(l, 21, &mut Canon).join(" ");
                for text in [format!("{} xqpanic {}", num, num), "xqpanic".to_string(), format!("{} {} xqpanic", vocab_of(l).fillers[0], num)] {
                    let toks = tokens_of(&text);
                    let stream: Vec<Tk> = text.split_whitespace().enumerate().map(|(i, w)| Tk::new(i, w)).collect();
                    let lower = text.to_lowercase();
                    let outcomes = [
                        std::panic::catch_unwind(std::panic::AssertUnwindSafe(|| drop(replace_numbers_in_text(&text, &p, 0.0)))).is_err(),
                        std::panic::catch_unwind(std::panic::AssertUnwindSafe(|| drop(replace_numbers_in_text(&text, &p, 10.0)))).is_err(),
                        std::panic::catch_unwind(std::panic::AssertUnwindSafe(|| drop(text2digits(&text, &p)))).is_err(),
                        std::panic::catch_unwind(std::panic::AssertUnwindSafe(|| drop(find_numbers(toks.iter(), &p, 0.0)))).is_err(),
                        std::panic::catch_unwind(std::panic::AssertUnwindSafe(|| drop(find_numbers_iter(toks.iter(), &p, 0.0).count()))).is_err(),
                        std::panic::catch_unwind(std::panic::AssertUnwindSafe(|| drop(replace_numbers_in_stream(stream.clone(), &p, 0.0)))).is_err(),
                        std::panic::catch_unwind(std::panic::AssertUnwindSafe(|| drop(p.exec_group(lower.split_whitespace())))).is_err(),
                    ];
                    panics += outcomes.iter().filter(|x| **x).count() as u64;
                }
            }
            obs.evaluations += 2 * battery.len() as u64;
            obs.label("after-user-panic-battery");
            if panics == 0 {
                return Err(("the panicking user interpreter never panicked: the after-panic procedure is vacuous".to_string(), serde_json::json!([])));
            }
            for (i, c) in battery.iter().enumerate() {
                for (what, got) in [("the same interpreter", perform(&shared[lang_index(&c.lang)], c)), ("a fresh interpreter", perform(&new_lang(&c.lang), c))] {
                    if got != before[i] {
                        return Err((format!("after {} caught panics of a user-supplied interpreter, call {:?} on {} returns {:?}; before them it returned {:?}", panics, c, what, got, before[i]), serde_json::to_value(vec![c.clone()]).unwrap()));
                    }
                }
            }
        }
        // --- sharing across threads --------------------------------------------------------------
        let mut runner = TestRunner::new(Config { rng_seed: RngSeed::Fixed(hash_of(&(seed, "c14-threads"))), failure_persistence: None, ..Config::default() });
        let strat = call_strategy();
        let ncalls = tier.pick(20_000usize, 100_000usize);
        let calls: Vec<Call> = (0..ncalls).map(|_| strat.new_tree(&mut runner).unwrap().current()).collect();
        let expected: Vec<String> = calls.iter().map(|c| perform(&new_lang(&c.lang), c)).collect();
        let shared: Vec<Language> = LANGS.iter().map(|l| new_lang(l)).collect();
        let bad: std::sync::Mutex<Option<(usize, usize, String)>> = std::sync::Mutex::new(None);
        let rounds = tier.pick(3usize, 6usize);
        std::thread::scope(|s| {
            for th in 0..16usize {
                let (calls, expected, shared, bad) = (&calls, &expected, &shared, &bad);
                s.spawn(move || {
                    for r in 0..rounds {
                        // every thread walks the list with its own stride/offset so the same call runs concurrently with others
                        let n = calls.len();
                        let stride = [1usize, 3, 7, 11, 13, 17, 19, 23][(th + r) % 8];
                        let mut i = (th * 977 + r * 31) % n;
                        for _ in 0..n {
                            let c = &calls[i];
                            let got = perform(&shared[lang_index(&c.lang)], c);
                            if got != expected[i] {
                                let mut b = bad.lock().unwrap();
                                if b.is_none() {
                                    *b = Some((th, i, got));
                                }
                                return;
                            }
                            i = (i + stride) % n;
                        }
                    }
                });
            }
        });
        obs.evaluations += (16 * rounds * ncalls) as u64;
        obs.label("thread-stress-rounds");
        if let Some((th, i, got)) = bad.into_inner().unwrap() {
            return Err((format!("thread {} sharing an interpreter got a different result for call {:?}: {:?}, fresh single-threaded result {:?}", th, calls[i], got, expected[i]), serde_json::to_value(vec![calls[i].clone()]).unwrap()));
        }
        // --- cold start: the very first calls on a fresh interpreter, made by several threads at once ------
        // (lazily built internal tables would be raced here and nowhere else)
        {
            let rounds = tier.pick(300usize, 3000usize);
            let texts: Vec<(usize, String, String)> = LANGS
                .iter()
                .enumerate()
                .map(|(li, l)| {
                    let t = format!("{} {} {}", spell::cardinal(l, 21_354, &mut Canon).join(" "), vocab_of(l).fillers[0], spell::cardinal(l, 777_143, &mut Canon).join(" "));
                    let want = replace_numbers_in_text(&t, &new_lang(l), 0.0);
                    (li, t, want)
                })
                .collect();
            let bad: std::sync::Mutex<Option<String>> = std::sync::Mutex::new(None);
            for r in 0..rounds {
                let (li, text, want) = &texts[r % texts.len()];
                let fresh = new_lang(LANGS[*li]);
                let barrier = std::sync::Barrier::new(8);
                std::thread::scope(|s| {
                    for _ in 0..8 {
                        let (fresh, barrier, bad) = (&fresh, &barrier, &bad);
                        s.spawn(move || {
                            barrier.wait();
                            let got = std::panic::catch_unwind(std::panic::AssertUnwindSafe(|| replace_numbers_in_text(text, fresh, 0.0))).unwrap_or_else(|_| "<panicked>".into());
                            if &got != want {
                                let mut b = bad.lock().unwrap();
                                if b.is_none() {
                                    *b = Some(format!("first concurrent use of a fresh {} interpreter: {:?} -> {:?}, expected {:?}", LANGS[*li], text, got, want));
                                }
                            }
                        });
                    }
                });
                obs.evaluations += 8;
                if bad.lock().unwrap().is_some() {
                    break;
                }
            }
            obs.label("cold-start-rounds(8 threads, barrier)");
            if let Some(m) = bad.into_inner().unwrap() {
                return Err((m, json!([{"f": 1, "lang": "de", "text": "cold-start", "th_bits": 0}])));
            }
        }
        // --- hot loop: a handful of long compounds hammered by 16 threads on one interpreter ----------------
        // (content-keyed memo tables with non-atomic updates show up here)
        {
            let iters = tier.pick(4_000usize, 40_000usize);
            for (li, l) in LANGS.iter().enumerate() {
                let texts: Vec<String> = [450_000u64, 777_000, 345_000, 123_456, 999_999, 21_354, 88_000, 654_321].iter().map(|n| spell::cardinal(l, *n, &mut Canon).join(" ")).collect();
                let want: Vec<String> = texts.iter().map(|t| format!("{:?}", text2digits(t, &new_lang(l)))).collect();
                let sh = &shared[li];
                let bad: std::sync::Mutex<Option<String>> = std::sync::Mutex::new(None);
                std::thread::scope(|s| {
                    for th in 0..16usize {
                        let (texts, want, bad) = (&texts, &want, &bad);
                        s.spawn(move || {
                            for i in 0..iters {
                                let k = (i * 7 + th * 3) % texts.len();
                                let got = std::panic::catch_unwind(std::panic::AssertUnwindSafe(|| format!("{:?}", text2digits(&texts[k], sh)))).unwrap_or_else(|_| "<panicked>".into());
                                if got != want[k] {
                                    let mut b = bad.lock().unwrap();
                                    if b.is_none() {
                                        *b = Some(format!("16 threads sharing one {} interpreter: text2digits({:?}) = {}, single-threaded {}", l, texts[k], got, want[k]));
                                    }
                                    return;
                                }
                            }
                        });
                    }
                });
                obs.evaluations += (16 * iters) as u64;
                if let Some(m) = bad.into_inner().unwrap() {
                    return Err((m, json!([{"f": 0, "lang": l, "text": texts[0], "th_bits": 0}])));
                }
            }
            obs.label("hot-loop(16 threads, 8 long compounds per language)");
        }
        // --- oversubscription: hundreds of threads, most of them preempted in the middle of a call ----------
        // (process-wide counters / limits on calls in flight only show up with far more threads than cores)
        {
            let nthreads = tier.pick(384usize, 768usize);
            // long enough per thread (tens of ms) that threads are preempted in mid-call instead of finishing within one time slice
            let iters = tier.pick(4_000usize, 12_000usize);
            let texts: Vec<(usize, String, String)> = LANGS
                .iter()
                .enumerate()
                .map(|(li, l)| {
                    let t = spell::cardinal(l, 654_321, &mut Canon).join(" ");
                    let want = format!("{:?}", text2digits(&t, &new_lang(l)));
                    (li, t, want)
                })
                .collect();
            let bad: std::sync::Mutex<Option<String>> = std::sync::Mutex::new(None);
            let go = std::sync::atomic::AtomicBool::new(false);
            let mut started = 0usize;
            std::thread::scope(|s| {
                for th in 0..nthreads {
                    let (texts, bad, shared, go) = (&texts, &bad, &shared, &go);
                    let r = std::thread::Builder::new().stack_size(256 << 10).spawn_scoped(s, move || {
                        while !go.load(std::sync::atomic::Ordering::Acquire) {
                            std::thread::yield_now();
                        }
                        for i in 0..iters {
                            let (li, t, want) = &texts[(i + th) % texts.len()];
                            let got = std::panic::catch_unwind(std::panic::AssertUnwindSafe(|| format!("{:?}", text2digits(t, &shared[*li])))).unwrap_or_else(|_| "<panicked>".into());
                            if &got != want {
                                let mut b = bad.lock().unwrap();
                                if b.is_none() {
                                    *b = Some(format!("{} threads sharing the interpreters: text2digits({:?}) = {}, single-threaded {}", nthreads, t, got, want));
                                }
                                return;
                            }
                        }
                    });
                    // a sandbox may cap the number of threads: use as many as could be started
                    if r.is_err() {
                        break;
                    }
                    started += 1;
                }
                go.store(true, std::sync::atomic::Ordering::Release);
            });
            let nthreads = started;
            obs.evaluations += (nthreads * iters) as u64;
            obs.label("oversubscription(384+ threads)");
            if let Some(m) = bad.into_inner().unwrap() {
                return Err((m, json!([{"f": 0, "lang": "nl", "text": "oversubscription", "th_bits": 0}])));
            }
        }
        // --- silence -----------------------------------------------------------------------------
        let total_items = silent_items(seed).len();
        let (out, err, ok, n) = silent_child(seed, 0, total_items);
        if !out.is_empty() || !err.is_empty() {
            // bisect to one workload item so that the report names a minimal input
            let (mut lo, mut hi) = (0usize, total_items);
            while hi - lo > 1 {
                let mid = (lo + hi) / 2;
                let (o, e, _, _) = silent_child(seed, lo, mid);
                if !o.is_empty() || !e.is_empty() {
                    hi = mid;
                } else {
                    lo = mid;
                }
            }
            let items = silent_items(seed);
            let (l, text) = items.get(lo).cloned().unwrap_or_default();
            let (o1, e1, _, _) = silent_child(seed, lo, lo + 1);
            let show = |b: &[u8]| String::from_utf8_lossy(&b[..b.len().min(300)]).to_string();
            return Err((
                format!(
                    "library calls wrote to the standard streams: {} bytes on stdout, {} bytes on stderr over the whole workload; smallest reproducing item: lang {} text {:?} ({} / {} bytes); stdout starts {:?}; stderr starts {:?}",
                    out.len(), err.len(), l, text, o1.len(), e1.len(), show(if o1.is_empty() { &out } else { &o1 }), show(if e1.is_empty() { &err } else { &e1 })
                ),
                json!([{"f": 1, "lang": l, "text": text, "th_bits": 0}]),
            ));
        }
        if !ok {
            infra("the silent worker did not finish; not a silence verdict");
        }
        obs.evaluations += n;
        obs.label("silent-worker-calls-with-empty-pipes");
        Ok(())
    }
    fn check(&self, h: &History, obs: &mut Obs) -> Result<(), String> {
        let shared: Vec<Language> = LANGS.iter().map(|l| new_lang(l)).collect();
        let mut fresh_cache: std::collections::HashMap<u64, String> = std::collections::HashMap::new();
        // reference results first, each on a freshly built interpreter, in a fixed order: calls made in the text's
        // own language, then calls in a foreign language, then the ones with a panicking user interpreter. State
        // that the library keeps outside the interpreters (statics, thread-locals) and that the history's own
        // order would disturb shows up as a difference with these.
        let mut distinct: Vec<&Call> = vec![];
        for c in h.iter() {
            if !distinct.iter().any(|d| hash_of(*d) == hash_of(c)) {
                distinct.push(c);
            }
        }
        distinct.sort_by_key(|c| (c.f % NFUNCS == 10, !c.native.is_empty() && c.native != c.lang));
        for c in distinct {
            fresh_cache.insert(hash_of(c), perform(&new_lang(&c.lang), c));
        }
        let mut langs = std::collections::BTreeSet::new();
        let mut seen: Vec<u64> = vec![];
        let mut revisit = false;
        for (i, c) in h.iter().enumerate() {
            let key = hash_of(c);
            let want = fresh_cache.entry(key).or_insert_with(|| perform(&new_lang(&c.lang), c)).clone();
            let got = perform(&shared[lang_index(&c.lang)], c);
            if got != want {
                return Err(format!("call #{} {:?} on a reused interpreter returned {:?}; on a fresh interpreter {:?} (history of {} calls)", i, c, got, want, h.len()));
            }
            if seen.contains(&key) && seen.last() != Some(&key) {
                revisit = true;
            }
            seen.push(key);
            langs.insert(c.lang.clone());
        }
        obs.label(if h.len() < 30 { "history<30" } else if h.len() < 120 { "history<120" } else { "history>=120" });
        obs.label_if(langs.len() >= 2, "history-mixes-languages");
        obs.label_if(revisit, "call-repeated-after-other-calls");
        if langs.len() >= 2 && revisit {
            obs.nontrivial(h);
        }
        obs.sample(|| json!({"calls": h.len(), "languages": langs, "first": h.first().map(|c| json!({"f": c.f, "lang": c.lang, "text": c.text}))}));
        Ok(())
    }
}
