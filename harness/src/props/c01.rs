//! C01 Cardinal round-trip: any integer below 10^12 spelled out converts to its digits.
use super::ctx::context;
use crate::choose::{Bytes, Canon};
use crate::engine::*;
use crate::gen::*;
use crate::spell;
use crate::util::*;
use proptest::prelude::*;
use serde::{Deserialize, Serialize};
use serde_json::json;
use text2num::{replace_numbers_in_text, text2digits};

#[derive(Clone, Debug, Hash, Serialize, Deserialize)]
pub struct Case {
    pub lang: String,
    pub n: u64,
    /// spelling-variant choice bytes (empty / zeros = canonical spelling)
    pub choices: Vec<u8>,
    pub prefix: String,
    pub suffix: String,
    /// explicit spelling (replay files of known findings: independent of the speller's choice decoding)
    #[serde(default)]
    pub phrase: Option<Vec<String>>,
}
pub struct C01;

pub fn phrase_of(c: &Case) -> Vec<String> {
    if let Some(p) = &c.phrase {
        return p.clone();
    }
    if c.choices.is_empty() {
        spell::cardinal(&c.lang, c.n, &mut Canon)
    } else {
        spell::cardinal(&c.lang, c.n, &mut Bytes::new(&c.choices))
    }
}

/// French only: the documented `neuf` heuristic (new vs nine) may set a `neuf` aside when one of
/// un/le/du/l' stands two or three words before it and neither neighbour is a number.
fn neuf_heuristic_applies(c: &Case, words: &[String]) -> bool {
    c.lang == "fr"
        && words.iter().any(|w| w.to_lowercase() == "neuf")
        && c.prefix.to_lowercase().split(|ch: char| !(ch.is_alphanumeric() || ch == '\'')).any(|w| matches!(w, "un" | "le" | "du" | "l'"))
}

/// the three-way oracle; shared with C16 (leading zeros) through `expect_digits`
pub fn roundtrip(lang_code: &str, words: &[String], digits: &str, value: f64, prefix: &str, suffix: &str, allow_set_aside: bool) -> Result<bool, String> {
    roundtrip_ex(lang_code, words, digits, value, false, prefix, suffix, allow_set_aside, true)
}
/// `validate`: also require text2digits(phrase) == Ok(digits) (not for decimals, which the validator does not accept)
pub fn roundtrip_ex(lang_code: &str, words: &[String], digits: &str, value: f64, ord: bool, prefix: &str, suffix: &str, allow_set_aside: bool, validate: bool) -> Result<bool, String> {
    let lg = lang(lang_code);
    let phrase = words.join(" ");
    // (a) validated on its own
    if validate {
        let v = text2digits(&phrase, lg);
        if v.as_deref().ok() != Some(digits) {
            return Err(format!("text2digits({:?}) = {:?}, expected Ok({:?})", phrase, v, digits));
        }
    }
    // (b)+(c) found and rewritten inside a sentence, as ONE number
    let text = format!("{}{}{}", prefix, phrase, suffix);
    let (t, o) = scan(&text, lg, 0.0);
    let np = tokens_of(prefix).len();
    let nw = tokens_of(&phrase).len();
    if allow_set_aside && t[np..np + nw].iter().any(|x| x.nan && x.lowercase == "neuf") {
        return Ok(false);
    }
    let out = replace_numbers_in_text(&text, lg, 0.0);
    let expect = format!("{}{}{}", prefix, digits, suffix);
    if out != expect {
        return Err(format!("rewrite of {:?} = {:?}, expected {:?}", text, out, expect));
    }
    if o.len() != 1 {
        return Err(format!("{:?}: expected exactly one occurrence, got {:?}", text, o));
    }
    let oc = &o[0];
    if oc.start != np || oc.end != np + nw {
        return Err(format!("{:?}: the occurrence spans tokens [{}, {}), the spelled number is tokens [{}, {})", text, oc.start, oc.end, np, np + nw));
    }
    // a numeral of two or more characters that is not an ordinal is rewritten at every threshold (C09 d)
    if !ord && digits.chars().count() >= 2 {
        for th in [10.0, f64::INFINITY] {
            let o2 = replace_numbers_in_text(&text, lg, th);
            if o2 != expect {
                return Err(format!("rewrite of {:?} at threshold {} = {:?}, expected {:?}", text, th, o2, expect));
            }
        }
    }
    // the same words as a caller-built token stream in which every hyphen is its own "-" token
    // (the scanner documents bare hyphens as transparent, like whitespace)
    if words.iter().any(|w| w.contains('-')) {
        let mut stream: Vec<Tk> = vec![];
        for (i, w) in words.iter().enumerate() {
            if i > 0 {
                stream.push(Tk::new(stream.len(), " "));
            }
            for (j, part) in w.split('-').enumerate() {
                if j > 0 {
                    stream.push(Tk::new(stream.len(), "-"));
                }
                stream.push(Tk::new(stream.len(), part));
            }
        }
        let so = occs(text2num::find_numbers(stream.iter(), lg, 0.0));
        if !(so.len() == 1 && so[0].start == 0 && so[0].end == stream.len() && so[0].text == digits && so[0].ord == ord) {
            return Err(format!("token stream {:?} (hyphens as separate tokens): occurrences {:?}, expected one occurrence {:?} over the whole stream", stream.iter().map(|t| t.text.as_str()).collect::<Vec<_>>(), so, digits));
        }
    }
    if oc.text != digits || oc.ord != ord || oc.value().to_bits() != value.to_bits() {
        return Err(format!("{:?}: occurrence {:?} (value {}), expected text {:?} value {} is_ordinal={}", text, oc, oc.value(), digits, value, ord));
    }
    Ok(true)
}

impl Property for C01 {
    type Input = Case;
    fn id(&self) -> &'static str {
        "C01"
    }
    fn rule(&self) -> String {
        "Reference-speller oracle. Generated: (language, n, variant choice bytes, prefix, suffix) with n < 10^12 assembled from boundary-shaped 3-digit groups {0,1,2,3,8,10,11,16,20,21,28,71,80,81,91,99,100,101,180,200,999} mixed with uniform draws; the speller (src/spell/<lang>.rs, written from the language's grammar) renders n in the variant selected by the choice bytes (hyphen vs space, optional conjunction, compound vs split, regional tens, plural/inflected scale words, feminine forms, apocopes, 'nineteen hundred' style...); contexts are 0-3 ordinary/linking words and punctuation on each side, a share of suffixes starting with the conjunction or decimal-separator word followed by an ordinary word. Oracle: text2digits(phrase) == Ok(decimal(n)); replace_numbers_in_text(prefix phrase suffix, 0) == prefix decimal(n) suffix; through the tokenizer pipeline exactly one occurrence covering exactly the phrase with that text, value n, not ordinal. Enumerated: canonical spelling of every n < 20 000 (quick) / < 10^6 (thorough) per language and every g*1000^k, g1*1000^k+g2 with g from the pool. Non-trivial = distinct (language, phrase) with >= 2 words or a non-canonical choice.".into()
    }
    fn assumptions(&self) -> Vec<String> {
        vec![
            "the reference spellers define 'standard spelling and accepted variants'; spellings the library documents as deliberately not numbers are not generated (DESIGN.md §2.1)".into(),
            "fr: a `neuf` set aside by the documented new/nine heuristic (un/le/du/l' two or three words before it) is excluded and counted".into(),
        ]
    }
    fn exhaustive_subdomains(&self, tier: Tier) -> Vec<String> {
        vec![format!("canonical spelling of every n < {} in each of the 7 languages, no context", tier.pick(20_000, 1_000_000)), "canonical spelling of g*1000^k and g1*1000^k+g2 for g,g1,g2 in the boundary pool, k in 1..=3".into()]
    }
    fn strategy(&self, _tier: Tier) -> BoxedStrategy<Case> {
        lang_strategy()
            .prop_flat_map(|lang| {
                let l2 = lang.clone();
                (num_strategy(1_000_000_000_000), choices(), prop_oneof![1 => Just((String::new(), String::new())), 3 => context(lang, true)]).prop_map(move |(n, choices, (prefix, suffix))| Case { lang: l2.clone(), n, choices, prefix, suffix, phrase: None })
            })
            .boxed()
    }
    fn cases(&self, tier: Tier) -> u64 {
        tier.pick(3_000_000, 40_000_000)
    }
    fn enumerate(&self, tier: Tier, shard: usize, nshards: usize, emit: &mut Emit<Case>) {
        let top = tier.pick(20_000u64, 1_000_000u64);
        for i in shard_range(top * 7, shard, nshards) {
            let c = Case { lang: LANGS[(i % 7) as usize].to_string(), n: i / 7, choices: vec![], prefix: String::new(), suffix: String::new(), phrase: None };
            if !emit(c) {
                return;
            }
        }
        let mut special: Vec<u64> = vec![];
        for g1 in POOL {
            for k in 1..=3u32 {
                special.push(g1 as u64 * 1000u64.pow(k));
                for g2 in POOL {
                    special.push(g1 as u64 * 1000u64.pow(k) + g2 as u64);
                }
            }
        }
        // the longest spellings: every group one of 777 / 737 / 377 / 773
        for a in [777u64, 737, 377, 773] {
            for b in [777u64, 737, 377, 773] {
                special.push(a * 1000 + b);
                special.push(a * 1_000_000 + b * 1000 + a);
                for c2 in [777u64, 737] {
                    special.push(c2 * 1_000_000_000 + a * 1_000_000 + b * 1000 + c2);
                }
            }
        }
        special.sort();
        special.dedup();
        for i in shard_range(special.len() as u64 * 7, shard, nshards) {
            let c = Case { lang: LANGS[(i % 7) as usize].to_string(), n: special[(i / 7) as usize], choices: vec![], prefix: String::new(), suffix: String::new(), phrase: None };
            if !emit(c) {
                return;
            }
        }
        // the same numbers in a handful of fixed non-canonical styles (one-word / fully glued forms included)
        let styles: [&[u8]; 4] = [&[64, 255, 255, 255, 255, 255, 255, 255, 255, 255], &[0, 255, 255, 255, 255, 255, 255, 255, 255, 255], &[128, 0, 255, 0, 255, 0, 255, 0, 255], &[255, 255, 0, 0, 255, 255, 0, 0]];
        for i in shard_range(special.len() as u64 * 7 * 4, shard, nshards) {
            let st = styles[(i % 4) as usize];
            let c = Case { lang: LANGS[((i / 4) % 7) as usize].to_string(), n: special[(i / 28) as usize], choices: st.to_vec(), prefix: String::new(), suffix: String::new(), phrase: None };
            if !emit(c) {
                return;
            }
        }
    }
    fn known_signature(&self, c: &Case) -> Option<&'static str> {
        if c.lang == "de" && c.n >= 1_000_000 && (!c.choices.is_empty() || c.phrase.is_some()) {
            let w = phrase_of(c);
            if w.windows(2).any(|p| p[0] == "eine" && (p[1].starts_with("million") || p[1].starts_with("milliarde"))) {
                return Some("de-eine-million");
            }
        }
        None
    }
    fn check(&self, c: &Case, obs: &mut Obs) -> Result<(), String> {
        let words = phrase_of(c);
        let digits = c.n.to_string();
        let allow = neuf_heuristic_applies(c, &words);
        let ran = roundtrip(&c.lang, &words, &digits, c.n as f64, &c.prefix, &c.suffix, allow).map_err(|e| format!("[{} n={} variant bytes {:?}] {}", c.lang, c.n, c.choices, e))?;
        if !ran {
            obs.exclude("fr-neuf-heuristic-set-aside");
            return Ok(());
        }
        obs.label(&format!("lang-{}", c.lang));
        obs.label(match c.n {
            0..=99 => "n<100",
            100..=999 => "n<1000",
            1000..=999_999 => "n<10^6",
            1_000_000..=999_999_999 => "n<10^9",
            _ => "n<10^12",
        });
        let noncanon = !c.choices.is_empty() && words != spell::cardinal(&c.lang, c.n, &mut Canon);
        obs.label_if(noncanon, "non-canonical-variant");
        obs.label_if(!c.prefix.is_empty() || !c.suffix.is_empty(), "in-sentence-context");
        obs.label_if(words.iter().any(|w| w.contains('-')), "hyphenated-word");
        obs.label_if(words.len() >= 6, ">=6-words");
        let v = vocab_of(&c.lang);
        obs.label_if(c.suffix.trim_start().starts_with(v.conj) || c.suffix.trim_start().starts_with(v.sep), "suffix-starts-with-conj/sep");
        if words.len() >= 2 || noncanon {
            obs.nontrivial(&(&c.lang, &words));
        }
        obs.sample(|| json!({"lang": c.lang, "n": c.n, "text": format!("{}{}{}", c.prefix, words.join(" "), c.suffix)}));
        Ok(())
    }
}
