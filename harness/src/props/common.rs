//! Shared case type for the text-level properties.
use crate::gen::*;
use proptest::prelude::*;
use serde::{Deserialize, Serialize};

#[derive(Clone, Debug, Hash, Serialize, Deserialize)]
pub struct TextCase {
    pub lang: String,
    pub sent: Sentence,
    pub th_bits: u64,
}
impl TextCase {
    pub fn text(&self) -> String {
        self.sent.render()
    }
}
/// clean and dirty sentences, any threshold, all languages
pub fn text_case(dirty_share: u32, max_items: usize) -> BoxedStrategy<TextCase> {
    let s = if dirty_share == 0 {
        sentence_strategy(Mode::Clean, max_items)
    } else {
        prop_oneof![
            (100 - dirty_share) => sentence_strategy(Mode::Clean, max_items),
            dirty_share => sentence_strategy(Mode::Dirty, max_items),
        ]
        .boxed()
    };
    (s, threshold_strategy()).prop_map(|((lang, sent), th_bits)| TextCase { lang, sent, th_bits }).boxed()
}

/// per-language ordinal markers that may follow the digits of an occurrence text
pub fn markers(lang: &str) -> &'static [&'static str] {
    match lang {
        "en" => &["st", "nd", "rd", "th", "ths", "rds"],
        "fr" => &["er", "ère", "ers", "ères", "ème", "èmes"],
        "de" => &["."],
        "nl" => &["e"],
        "it" => &["º", "ª"],
        "es" => &["º", "ª", "ᵒˢ", "ᵃˢ", ".ᵉʳ"],
        "pt" => &["º", "ª", "ᵒˢ", "ᵃˢ"],
        _ => &[],
    }
}

#[derive(Debug, Clone, PartialEq)]
pub struct Numeral {
    pub int: String,
    pub frac: Option<String>,
    pub marker: Option<String>,
    pub reciprocal: bool,
}
/// parse an occurrence text: DIGITS (MARK DIGITS)? MARKER? | "1/"DIGITS (es)
pub fn parse_numeral(lang: &str, text: &str) -> Result<Numeral, String> {
    if lang == "es" {
        if let Some(d) = text.strip_prefix("1/") {
            if !d.is_empty() && d.bytes().all(|c| c.is_ascii_digit()) {
                return Ok(Numeral { int: d.to_string(), frac: None, marker: None, reciprocal: true });
            }
            return Err(format!("malformed fraction {:?}", text));
        }
    }
    let dl = text.bytes().take_while(|c| c.is_ascii_digit()).count();
    if dl == 0 {
        return Err(format!("{:?} does not start with a digit", text));
    }
    let (int, rest) = text.split_at(dl);
    if rest.is_empty() {
        return Ok(Numeral { int: int.into(), frac: None, marker: None, reciprocal: false });
    }
    let mark = crate::util::decimal_mark(lang);
    // German: the ordinal marker is "." and the decimal mark is ","
    if let Some(fr) = rest.strip_prefix(mark) {
        let fl = fr.bytes().take_while(|c| c.is_ascii_digit()).count();
        if fl > 0 {
            let (frac, rest2) = fr.split_at(fl);
            if rest2.is_empty() {
                return Ok(Numeral { int: int.into(), frac: Some(frac.into()), marker: None, reciprocal: false });
            }
            return Err(format!("{:?}: text after the fractional digits", text));
        }
        if !(lang == "en" && false) {
            // fallthrough: maybe a marker starting with the mark character (none today)
        }
    }
    if markers(lang).contains(&rest) {
        return Ok(Numeral { int: int.into(), frac: None, marker: Some(rest.into()), reciprocal: false });
    }
    Err(format!("{:?}: {:?} after the digits is neither a decimal part nor an ordinal marker of {}", text, rest, lang))
}
impl Numeral {
    /// numeric reading of the text
    pub fn read(&self) -> f64 {
        let v: f64 = match &self.frac {
            Some(f) => format!("{}.{}", self.int, f).parse().unwrap(),
            None => self.int.parse().unwrap(),
        };
        if self.reciprocal {
            1.0 / v
        } else {
            v
        }
    }
}

/// Long documents for the whole-run procedures of C02 and C10: a prefix of W ordinary words (no
/// punctuation) followed by a short tail in which small numbers are linked across punctuation.
/// Sizes sit just above powers of two and round decimal sizes (in tokens), where an implementation
/// that processes a document in chunks would cut.
pub fn long_doc_sizes(thorough: bool) -> Vec<usize> {
    let mut v = vec![1usize << 10, 1 << 12, 1 << 13, 1 << 14, 1 << 15, 1 << 16, 1_000, 10_000, 50_000];
    if thorough {
        v.extend([1usize << 17, 1 << 18, 100_000, 1 << 20]);
    }
    v
}
pub fn long_doc_tails(lang: &str) -> Vec<String> {
    use crate::choose::Canon;
    let d = |n: u64| -> String {
        if lang == "de" && n == 1 {
            "eins".to_string()
        } else {
            crate::spell::cardinal(lang, n, &mut Canon).join(" ")
        }
    };
    let v = crate::gen::vocab_of(lang);
    let w = v.fillers[0];
    vec![
        format!("{}, {}, {}, {}!", d(1), d(2), d(3), w),
        format!("{}... {}", d(4), d(5)),
        format!("{} … {} ; {}", d(6), d(7), d(8)),
        format!("{} {} {}", d(2), v.linking[0], d(3)),
        format!("{}. {}, {} {} {}", w, d(5), d(6), w, d(7)),
        format!("{} {} {}", d(21), w, d(9)),
    ]
}
pub fn long_doc(lang: &str, tokens: usize, slack: usize, tail: &str) -> (String, String) {
    let v = crate::gen::vocab_of(lang);
    let w = v.fillers[0];
    // each word contributes two tokens (word, space)
    let words = tokens / 2 + slack;
    let mut prefix = String::with_capacity(words * (w.len() + 1));
    for _ in 0..words {
        prefix.push_str(w);
        prefix.push(' ');
    }
    (prefix, tail.to_string())
}

/// Punctuation marks and symbols: every char of the listed Unicode blocks that is neither alphanumeric nor
/// whitespace (nor the two word-internal marks `-` and `'`). Used where a property speaks of "punctuation".
pub fn symbol_chars() -> &'static [char] {
    static V: std::sync::OnceLock<Vec<char>> = std::sync::OnceLock::new();
    V.get_or_init(|| {
        let ranges: [(u32, u32); 22] = [
            (0x21, 0x2F), (0x3A, 0x40), (0x5B, 0x60), (0x7B, 0x7E), (0xA1, 0xAC), (0xAE, 0xBF), (0xD7, 0xD7), (0xF7, 0xF7),
            (0x2010, 0x2027), (0x2030, 0x205E), (0x20A0, 0x20BF), (0x2100, 0x214F), (0x2190, 0x23FF), (0x2500, 0x27BF),
            (0x2E00, 0x2E4F), (0x3001, 0x3003), (0x3008, 0x3011), (0xFF01, 0xFF0F), (0xFF1A, 0xFF20), (0xFF3B, 0xFF40), (0xFF5B, 0xFF65),
            (0x1F600, 0x1F64F),
        ];
        let mut v = vec![];
        for (a, b) in ranges {
            for u in a..=b {
                if let Some(c) = char::from_u32(u) {
                    if !c.is_alphanumeric() && !c.is_whitespace() && !c.is_control() && c != '-' && c != '\'' {
                        v.push(c);
                    }
                }
            }
        }
        v
    })
}
