//! C12 Digit builder: model-based check of operation sequences (+ direct invariants from the statement).
use crate::engine::*;
use crate::model::digit::Model;
use proptest::prelude::*;
use serde::{Deserialize, Serialize};
use serde_json::json;
use text2num::digit_string::DigitString;

#[derive(Clone, Debug, Hash, Serialize, Deserialize)]
pub enum Op {
    Put(String),
    PutDigitAt(char, usize),
    Shift(usize),
    Fput(String),
    Push(String),
    Freeze,
    Reset,
    /// n consecutive put("0") (a long run of leading zeros without a 300-step trace)
    PutZeros(u16),
}
pub type Trace = Vec<Op>;

pub struct C12;

fn digits_strategy() -> BoxedStrategy<String> {
    prop_oneof![
        2 => Just("0".to_string()),
        3 => "[1-9]",
        3 => "[1-9]0{1,3}",
        2 => "[1-9][0-9]{1,3}",
        1 => "0[0-9]{1,2}",
        1 => "0{2,4}",
        2 => "[0-9]{1,4}",
        1 => "[1-9]0{4,12}",
        1 => "[0-9]{5,13}",
        1 => "[0-9]{14,40}",
        1 => "0{0,20}[1-9]{1,3}0{0,20}",
        // operands wider than a machine word / a cache line of digits
        1 => prop_oneof!["[1-9]0{58,70}", "[1-9]0{120,135}", "[0-9]{60,70}", "[0-9]{41,140}", "0{50,70}[1-9]{1,3}"],
    ]
    .boxed()
}
const SHIFTS: [usize; 12] = [0, 1, 2, 2, 3, 3, 3, 6, 6, 9, 12, 4];
pub fn op_strategy() -> BoxedStrategy<Op> {
    prop_oneof![
        12 => digits_strategy().prop_map(Op::Put),
        4 => ("[0-9]", 0usize..14).prop_map(|(c, p)| Op::PutDigitAt(c.chars().next().unwrap(), p)),
        11 => (0usize..SHIFTS.len()).prop_map(|i| Op::Shift(SHIFTS[i])),
        1 => (0usize..40).prop_map(Op::Shift),
        1 => (1u16..40).prop_map(Op::PutZeros),
        2 => digits_strategy().prop_map(Op::Fput),
        2 => digits_strategy().prop_map(Op::Push),
        1 => Just(Op::Freeze),
        2 => Just(Op::Reset),
    ]
    .boxed()
}

/// every query, on the real builder; a panic in any query is a violation
/// probe positions: every small k plus the ones around the current length (full quadratic probing of a
/// 65 000-digit builder would take minutes)
fn probes(len: usize) -> Vec<usize> {
    if len > 5_000 {
        // very long builders: a handful of probes (each peek formats the whole slice)
        return vec![0, 1, 2, 3, len - 1, len, len + 1, usize::MAX];
    }
    let mut v: Vec<usize> = (0..=(len + 2).min(24)).collect();
    if len > 22 {
        for k in [len - 2, len - 1, len, len + 1, len + 2, len / 2, 31, 32, 33, 255, 256, 65_535, 65_536] {
            if k <= len + 2 && !v.contains(&k) {
                v.push(k);
            }
        }
    }
    v.sort();
    // boundary arguments
    v.push(usize::MAX - 1);
    v.push(usize::MAX);
    v
}
fn render_summary(s: &str) -> String {
    if s.len() <= 200 {
        s.to_string()
    } else {
        // long renderings are compared by length, both ends and a hash
        format!("{}…{}#len{}#h{:016x}", &s[..60], &s[s.len() - 60..], s.len(), crate::engine::hash_of(s))
    }
}
/// every query, on the real builder; a panic in any query is a violation
fn observe_real(d: &DigitString) -> String {
    let mut s = format!(
        "{}|len={}|empty={}|null={}|ord={}|flags={}|marker_none={}|",
        render_summary(&d.to_string()),
        d.len(),
        d.is_empty(),
        d.is_null(),
        d.is_ordinal(),
        d.flags,
        d.marker.is_none()
    );
    let ks = probes(d.len());
    for &k in &ks {
        s.push_str(&format!("p{}={};f{}={};q{}={};", k, render_summary(std::str::from_utf8(d.peek(k)).unwrap_or("<non-utf8>")), k, d.is_free(k), k, d.is_position_free(k)));
    }
    for &a in &ks {
        for &b in &ks {
            if a < b {
                s.push(if d.is_range_free(a, b) { '1' } else { '0' });
            }
        }
    }
    s.push_str(&format!("|deref={}", render_summary(std::str::from_utf8(&d[..]).unwrap_or("<non-utf8>"))));
    s
}
fn observe_model(m: &Model) -> String {
    let mut s = format!("{}|len={}|empty={}|null={}|ord=false|flags=0|marker_none=true|", render_summary(&m.render()), m.len(), m.is_empty(), m.is_null());
    let ks = probes(m.len());
    for &k in &ks {
        s.push_str(&format!("p{}={};f{}={};q{}={};", k, render_summary(std::str::from_utf8(m.peek(k)).unwrap()), k, m.is_free(k), k, m.is_position_free(k)));
    }
    for &a in &ks {
        for &b in &ks {
            if a < b {
                s.push(if m.is_range_free(a, b) { '1' } else { '0' });
            }
        }
    }
    s.push_str(&format!("|deref={}", render_summary(std::str::from_utf8(&m.buf).unwrap())));
    s
}
fn nonzero(s: &str) -> Vec<u8> {
    s.bytes().filter(|&c| c != b'0').collect()
}
fn is_subsequence(a: &[u8], b: &[u8]) -> bool {
    let mut it = b.iter();
    a.iter().all(|x| it.any(|y| y == x))
}
fn val(s: &str) -> Option<u128> {
    if s.len() <= 38 {
        Some(if s.is_empty() { 0 } else { s.parse().ok()? })
    } else {
        None
    }
}

impl Property for C12 {
    type Input = Trace;
    fn id(&self) -> &'static str {
        "C12"
    }
    fn rule(&self) -> String {
        "Generated: operation traces of length 1..40 over put/put_digit_at/shift/fput/push/freeze/reset with digit arguments of 1..40 digits (zero-biased; one in 22 of 41..140 digits, mostly a digit followed by 58..70 or 120..135 zeros), positions up to 39 and runs of up to 40 leading zeros; one trace in 200 is a short trace with extreme arguments (250..700 leading zeros, positions / shifts around 2^16 and up to 70 000), one in 4000 with positions / shifts around 2^20; after every step all public queries (to_string, len, is_empty, is_null, peek(k), is_free(k), is_position_free(k), is_range_free(a,b) a<b, deref, is_ordinal, flags, marker) for k <= len+2 are compared with an independent reference model and the statement's direct invariants are asserted. Enumerated: every trace of length <= 3 over a 19-operation alphabet (quick) / length <= 4 (thorough). Non-trivial = distinct traces containing a refused operation on a non-empty builder, a sub-group shift (shift on a buffer longer than p), or a shift with implicit one.".into()
    }
    fn assumptions(&self) -> Vec<String> {
        vec![
            "push is exempt from the frozen clause (its doc comment documents it as raw append; put/put_digit_at/fput/shift document the frozen refusal)".into(),
            "fput is exempt from the digit-preservation clause (documented 'force put')".into(),
            "is_range_free(a,b) is only called with a < b (its debug_assert encodes the precondition)".into(),
            "digit arguments are non-empty ASCII digit strings".into(),
        ]
    }
    fn exhaustive_subdomains(&self, tier: Tier) -> Vec<String> {
        vec![format!("all traces of length <= {} over the 19-operation alphabet", tier.pick(3, 4))]
    }
    fn strategy(&self, _tier: Tier) -> BoxedStrategy<Trace> {
        // 1 trace in 200 is a short one with extreme arguments: runs of 250..700 leading zeros, positions and
        // shifts around 2^16, shifts of tens of thousands (builders of 65 000+ digits)
        let huge_op = prop_oneof![
            3 => prop_oneof![Just(250u16), Just(255), Just(256), Just(257), 250u16..700].prop_map(Op::PutZeros),
            2 => (65_530usize..65_545).prop_map(Op::Shift),
            2 => (65_530usize..65_545).prop_map(|p| Op::PutDigitAt('1', p)),
            1 => (1_000usize..70_000).prop_map(Op::Shift),
            6 => op_strategy(),
        ];
        // 1 trace in 4000: positions / shifts around 2^20 (builders of a million digits; ~0.5 s per trace)
        let giant_op = prop_oneof![
            2 => ((1usize << 20) - 3..(1usize << 20) + 4).prop_map(Op::Shift),
            2 => ((1usize << 20) - 3..(1usize << 20) + 4).prop_map(|p| Op::PutDigitAt('1', p)),
            3 => op_strategy(),
        ];
        prop_oneof![
            3979 => proptest::collection::vec(op_strategy(), 1..40),
            20 => proptest::collection::vec(huge_op, 1..7),
            1 => proptest::collection::vec(giant_op, 1..5),
        ]
        .boxed()
    }
    fn cases(&self, tier: Tier) -> u64 {
        tier.pick(400_000, 12_000_000)
    }
    fn enumerate(&self, tier: Tier, shard: usize, nshards: usize, emit: &mut Emit<Trace>) {
        let alphabet: Vec<Op> = vec![
            Op::Put("0".into()),
            Op::Put("1".into()),
            Op::Put("20".into()),
            Op::Put("300".into()),
            Op::Put("12".into()),
            Op::Put("00".into()),
            Op::PutDigitAt('5', 0),
            Op::PutDigitAt('7', 2),
            Op::PutDigitAt('0', 1),
            Op::Shift(0),
            Op::Shift(1),
            Op::Shift(2),
            Op::Shift(3),
            Op::Shift(6),
            Op::Fput("40".into()),
            Op::Push("09".into()),
            Op::Push("5".into()),
            Op::Freeze,
            Op::Reset,
        ];
        let k = alphabet.len() as u64;
        let maxlen = tier.pick(3u32, 4u32);
        let mut base = 0u64;
        for len in 1..=maxlen {
            let count = k.pow(len);
            for i in shard_range(count, shard, nshards) {
                let mut t = vec![];
                let mut x = i;
                for _ in 0..len {
                    t.push(alphabet[(x % k) as usize].clone());
                    x /= k;
                }
                if !emit(t) {
                    return;
                }
            }
            base += count;
        }
        let _ = base;
    }
    fn fuzz_target(&self) -> Option<&'static str> {
        Some("digit_string")
    }
    fn from_fuzz_bytes(&self, data: &[u8]) -> Option<Trace> {
        let ops = crate::fuzzdec::decode_ops(data);
        if ops.is_empty() {
            None
        } else {
            Some(ops)
        }
    }
    fn check(&self, trace: &Trace, obs: &mut Obs) -> Result<(), String> {
        let mut d = DigitString::new();
        let mut m = Model::default();
        let mut nontrivial = false;
        // queries on the brand-new builder
        let o0 = no_panic("queries on an empty builder", || observe_real(&d))?;
        if o0 != observe_model(&m) {
            return Err(format!("empty builder: queries differ from the model\n real  {}\n model {}", o0, observe_model(&m)));
        }
        let mut before = o0;
        for (i, op) in trace.iter().enumerate() {
            let before_render = m.render();
            let before_frozen = m.frozen;
            let step = format!("step {} {:?}", i, op);
            let (ok_real, ok_model, guarded) = match op {
                Op::Put(g) => (no_panic(&step, || d.put(g.as_bytes()).is_ok())?, m.put(g.as_bytes()), true),
                Op::PutDigitAt(c, p) => (no_panic(&step, || d.put_digit_at(*c as u8, *p).is_ok())?, m.put_digit_at(*c as u8, *p), true),
                Op::Shift(p) => (no_panic(&step, || d.shift(*p).is_ok())?, m.shift(*p), true),
                Op::Fput(g) => (no_panic(&step, || d.fput(g.as_bytes()).is_ok())?, m.fput(g.as_bytes()), true),
                Op::Push(g) => (no_panic(&step, || d.push(g.as_bytes()).is_ok())?, m.push(g.as_bytes()), false),
                Op::Freeze => {
                    d.freeze();
                    m.frozen = true;
                    (true, true, false)
                }
                Op::Reset => {
                    d.reset();
                    m = Model::default();
                    (true, true, false)
                }
                Op::PutZeros(n) => {
                    // all n puts succeed or all fail (the state that decides does not change in between)
                    let mut ok_r = true;
                    let mut ok_m = true;
                    for _ in 0..*n {
                        ok_r &= no_panic(&step, || d.put(b"0").is_ok())?;
                        ok_m &= m.put(b"0");
                    }
                    if *n > 0 && ok_r && d.len() != before_render.len() + *n as usize {
                        return Err(format!("{}: {} leading zeros accepted but the length went from {} to {}", step, n, before_render.len(), d.len()));
                    }
                    (ok_r, ok_m, true)
                }
            };
            let after = no_panic(&format!("queries after {}", step), || observe_real(&d))?;
            let render = d.to_string();
            // direct invariants -------------------------------------------------------------
            if !render.bytes().all(|c| c.is_ascii_digit()) || render.len() != d.len() {
                return Err(format!("{}: rendering {:?} is not ASCII digits of the reported length {}", step, render, d.len()));
            }
            if !ok_real && after != before {
                return Err(format!("{}: reported an error but changed the builder\n before {}\n after  {}", step, short(&before), short(&after)));
            }
            if guarded && before_frozen && ok_real {
                return Err(format!("{}: accepted on a frozen builder", step));
            }
            if ok_real {
                let (b, a) = (&before_render, &render);
                match op {
                    Op::Put(_) | Op::PutDigitAt(..) | Op::Shift(_) => {
                        if !is_subsequence(&nonzero(b), &nonzero(a)) {
                            return Err(format!("{}: a previously placed non-zero digit was lost or reordered: {:?} -> {:?}", step, b, a));
                        }
                    }
                    _ => {}
                }
                if let (Some(vb), Some(va)) = (val(b), val(a)) {
                    match op {
                        Op::Put(g) => {
                            let add: u128 = g.parse().unwrap_or(0);
                            if va != vb + add {
                                return Err(format!("{}: value {} -> {}, expected +{}", step, vb, va, add));
                            }
                            // leading zeros accepted only while the value is zero, and kept
                            if g.bytes().all(|c| c == b'0') && vb != 0 {
                                return Err(format!("{}: a zero was accepted after a non-zero value {:?}", step, b));
                            }
                            if g == "0" && a != &format!("{}0", b) {
                                return Err(format!("{}: leading zero not kept: {:?} -> {:?}", step, b, a));
                            }
                        }
                        Op::PutDigitAt(c, p) => {
                            if *p <= 37 {
                                let add = (*c as u8 - b'0') as u128 * 10u128.pow(*p as u32);
                                if va != vb + add {
                                    return Err(format!("{}: value {} -> {}, expected +{}", step, vb, va, add));
                                }
                            }
                        }
                        Op::Shift(p) if *p > 0 && *p <= 18 => {
                            let pw = 10u128.pow(*p as u32);
                            let r = vb % pw;
                            let r_eff = if r == 0 { 1 } else { r };
                            let expect = vb - r + r_eff * pw;
                            if va != expect {
                                return Err(format!("{}: value {} -> {}, expected {} (rightmost {}-digit group {} times 10^{})", step, vb, va, expect, p, r_eff, p));
                            }
                        }
                        _ => {}
                    }
                }
            }
            // model agreement -----------------------------------------------------------------
            if ok_real != ok_model {
                return Err(format!("{}: builder says {} but the documented semantics say {} (state before {:?})", step, okerr(ok_real), okerr(ok_model), before_render));
            }
            let mo = observe_model(&m);
            if after != mo {
                return Err(format!("{}: queries differ from the model\n real  {}\n model {}", step, short(&after), short(&mo)));
            }
            // classification ------------------------------------------------------------------
            if !ok_real && !before_render.is_empty() && !before_frozen {
                obs.label("refused-on-nonempty");
                nontrivial = true;
            }
            if let Op::Shift(p) = op {
                if ok_real && *p > 0 {
                    let blen = before_render.trim_start_matches('0').len();
                    if blen > *p {
                        obs.label("subgroup-shift-ok");
                        nontrivial = true;
                    }
                    if blen == 0 || (blen > *p && before_render.ends_with(&"0".repeat(*p))) {
                        obs.label("shift-implicit-one");
                        nontrivial = true;
                    }
                }
                if !ok_real && !before_frozen {
                    obs.label("shift-refused");
                }
            }
            if before_frozen && guarded {
                obs.label("mutator-on-frozen");
            }
            before = after;
        }
        obs.label(if trace.len() <= 4 { "len<=4" } else if trace.len() <= 12 { "len5-12" } else { "len>12" });
        if nontrivial {
            obs.nontrivial(trace);
        }
        obs.sample(|| json!({"trace": format!("{:?}", trace), "final": m.render()}));
        Ok(())
    }
}
fn okerr(b: bool) -> &'static str {
    if b {
        "Ok"
    } else {
        "Err"
    }
}
fn short(s: &str) -> String {
    s.chars().take(160).collect()
}
