//! C06 Every reported occurrence is well-formed and self-consistent.
use super::common::*;
use crate::engine::*;
use crate::gen::*;
use crate::util::*;
use proptest::prelude::*;
use serde::{Deserialize, Serialize};
use serde_json::json;
use text2num::{find_numbers, LangInterpreter};

#[derive(Clone, Debug, Hash, Serialize, Deserialize)]
pub struct Case {
    pub lang: String,
    pub text: String,
    pub th_bits: u64,
    /// hint bytes for the own-token variant of the same stream (see C02)
    pub hints: Vec<u8>,
}
pub struct C06;

/// the validity predicate of the statement, for one occurrence list over a token stream
pub fn wellformed(lang_code: &str, texts: &[&str], nan: &[bool], occ: &[Occ], obs: &mut Obs) -> Result<bool, String> {
    let n = texts.len();
    let mut prev_end = 0usize;
    let mut interesting = occ.len() >= 2;
    for o in occ {
        if !(o.start < o.end && o.end <= n) {
            return Err(format!("span [{}, {}) is empty or outside the stream of {} tokens", o.start, o.end, n));
        }
        if o.start < prev_end {
            return Err(format!("spans are not strictly increasing / disjoint: [{}, {}) starts before the previous one ended at {}", o.start, o.end, prev_end));
        }
        prev_end = o.end;
        for edge in [o.start, o.end - 1] {
            if !(is_word(texts[edge]) && has_alpha(texts[edge])) {
                return Err(format!("span [{}, {}) begins or ends on a non-word token {:?}", o.start, o.end, texts[edge]));
            }
        }
        if let Some(k) = (o.start..o.end).find(|&k| nan[k]) {
            return Err(format!("token {} ({:?}) is flagged 'not a number part' but lies inside the occurrence {:?}", k, texts[k], o.text));
        }
        let num = parse_numeral(lang_code, &o.text).map_err(|e| format!("occurrence text is not a well-formed numeral: {}", e))?;
        let read = num.read();
        if read.to_bits() != o.value_bits {
            return Err(format!("value {:?} is not the numeric reading {:?} of the text {:?}", o.value(), read, o.text));
        }
        if num.marker.is_some() != o.ord {
            return Err(format!("is_ordinal={} but the text {:?} {} an ordinal marker", o.ord, o.text, if num.marker.is_some() { "carries" } else { "does not carry" }));
        }
        obs.label_if(o.ord, "ordinal-occurrence");
        obs.label_if(num.frac.is_some(), "decimal-occurrence");
        obs.label_if(num.frac.as_ref().map_or(false, |f| f.len() >= 35), "decimal-with>=35-fraction-digits");
        obs.label_if(num.int.len() > 1 && num.int.starts_with('0'), "leading-zero-occurrence");
        obs.label_if(num.int.len() >= 16, ">=16-digit-occurrence");
        obs.label_if(num.reciprocal, "es-fraction-occurrence");
        if o.ord || num.frac.is_some() || (num.int.len() > 1 && num.int.starts_with('0')) || num.int.len() >= 16 {
            interesting = true;
        }
    }
    Ok(interesting)
}

/// ordinal / separator / digit / zero shapes spliced from speller phrases (the places where ill-formed or
/// inconsistent occurrences can come from); shared with C07
pub fn shaped_texts() -> BoxedStrategy<(String, String, u64)> {
(lang_strategy(), num_strategy(1_000_000), choices(), num_strategy(1000), 0u8..13, threshold_strategy()).prop_map(|(lang, n, ch, m, shape, th)| {
            let mut c = crate::choose::Bytes::new(&ch);
            let r = 1 + n % crate::spell::ordinal_max(&lang);
            let ord = crate::spell::ordinal(&lang, r, &mut c).map(|x| x.0).unwrap_or_else(|| crate::spell::cardinal(&lang, r, &mut c));
            let card = crate::spell::cardinal(&lang, m, &mut c);
            let sep = crate::spell::decimal_sep(&lang).to_string();
            let conj = crate::spell::conjunction(&lang).to_string();
            let words: Vec<String> = match shape {
                0 => [ord, vec![sep], card].concat(),
                1 => [card, vec![sep], ord].concat(),
                2 => [ord.clone(), ord].concat(),
                3 => [ord, vec![conj], card].concat(),
                4 => [card.clone(), vec![sep.clone()], card, vec![sep], ord].concat(),
                6 => [ord.clone(), vec![sep], ord].concat(),
                11 | 12 if lang == "es" || lang == "pt" => {
                    // ordinals beyond 2^53 built from the ordinal scale words (every component ordinal, one inflection)
                    let sc: Vec<String> = if lang == "es" { vec!["milésimo".into(), "millonésimo".into()] } else { vec!["milionésimo".into(), "bilionésimo".into()] };
                    let o = |k: u64| crate::spell::ordinal(&lang, 1 + k % 99, &mut crate::choose::Bytes::new(&[0])).map(|x| x.0).unwrap_or_default();
                    if shape == 11 { [o(m), sc, o(n)].concat() } else { [o(m), vec![sc[1].clone()], o(n)].concat() }
                }
                9 | 10 => {
                    // a fraction that starts with zero words and ends in an ordinal / a cardinal
                    let z = crate::spell::zero_word(&lang).to_string();
                    let zeros: Vec<String> = (0..1 + m % 3).map(|_| z.clone()).collect();
                    if shape == 9 { [card, vec![sep], zeros, ord].concat() } else { [ord, vec![sep], zeros, card].concat() }
                }
                7 | 8 => {
                    // a 13..25 digit integer part (10^12 scale words where the language has them) with a decimal part
                    let big: Vec<String> = match lang.as_str() {
                        "de" => vec!["billion".into()],
                        "it" => vec!["bilioni".into()],
                        "nl" => vec!["biljoen".into()],
                        "pt" => vec!["biliões".into()],
                        "en" => vec!["million".into(), "billion".into()],
                        "fr" => vec!["millions".into(), "milliard".into()],
                        _ => vec![],
                    };
                    let tail = crate::spell::cardinal(&lang, 1 + n % 999, &mut c);
                    let frac = crate::spell::fraction(&lang, &format!("{}", 100 + m), &mut c);
                    let head = crate::spell::cardinal(&lang, 2 + m % 97, &mut c);
                    if shape == 7 { [head, big, tail, vec![sep], frac].concat() } else { [head, big, tail].concat() }
                }
                _ => [card, ord].concat(),
            };
            (lang, words.join(" "), th)
        }).boxed()
}

/// English / German decimals dictated digit by digit whose exact value lies on (or one digit beyond) the
/// midpoint between two adjacent doubles: I + F/2^(53-j) with 2^j <= I < 2^(j+1), F odd - 53-j fractional
/// digits, optionally followed by one more digit or cut short by one. The correctly rounded value of such a
/// text depends on its very last digit, so a value computed from a shortened or pre-rounded form shows.
pub fn tie_decimals() -> BoxedStrategy<(String, String, u64)> {
    (any::<bool>(), 0u32..19, any::<u64>(), any::<u64>(), 0u8..12, choices(), threshold_strategy())
        .prop_map(|(en, j, ibits, fbits, tail, ch, th)| {
            let lang = if en { "en" } else { "de" }.to_string();
            let int = (1u64 << j) | (ibits & ((1u64 << j) - 1));
            let n = 53 - j;
            let mut f = (fbits & ((1u64 << n) - 1)) | 1;
            let mut digits = String::new();
            for _ in 0..n {
                f *= 10;
                digits.push(char::from(b'0' + (f >> n) as u8));
                f &= (1u64 << n) - 1;
            }
            match tail {
                0..=4 => digits.push(char::from(b'0' + 1 + tail * 2)),
                5 => {
                    digits.pop();
                }
                6 => digits.push_str("01"),
                _ => {}
            }
            let mut c = crate::choose::Bytes::new(&ch);
            let words = [crate::spell::cardinal_nk(&lang, int, &mut c), vec![crate::spell::decimal_sep(&lang).to_string()], crate::spell::fraction(&lang, &digits, &mut c)].concat();
            (lang, words.join(" "), th)
        })
        .boxed()
}

impl Property for C06 {
    type Input = Case;
    fn id(&self) -> &'static str {
        "C06"
    }
    fn rule(&self) -> String {
        "Generated: (language, text, threshold, hint bytes) from the clean and dirty sentence generators, biased so that ordinal forms, the decimal separator and digit words occur next to each other (the shapes that can produce ill-formed texts), plus arbitrary unicode, plus (1 case in 25) English / German decimals of 35-56 dictated fractional digits whose exact value is the midpoint between two adjacent doubles, optionally one digit longer or shorter (the correctly rounded value depends on the last digit). For the occurrences reported (a) through the tokenizer+annotation pipeline (b) on an own-token stream with random separation / not-a-number hints and (c) on the same stream without its whitespace tokens or reduced to its word tokens (a speech recogniser's stream: occurrences can be directly adjacent), the validity predicate of the statement is asserted: span inside the stream, non-empty, strictly increasing and disjoint, first and last token are word tokens, no flagged token inside, text matches DIGITS (MARK DIGITS)? MARKER? with the language's decimal mark and ordinal-marker set (or 1/DIGITS for Spanish), value bit-equal to the numeric reading of the text, is_ordinal <=> marker present; for non-decimal occurrences the digits of the text equal the rendering of the public digit builder that exec_group returns for the span's words (exact digits beyond float precision). Non-trivial = distinct cases with >= 2 occurrences or an occurrence that is ordinal, decimal, has leading zeros or >= 16 digits.".into()
    }
    fn assumptions(&self) -> Vec<String> {
        vec!["the per-language ordinal marker sets are those the library documents/emits today (en st nd rd th ths rds; fr er ère ers ères ème èmes; de '.'; nl e; it º ª; es º ª ᵒˢ ᵃˢ .ᵉʳ; pt º ª ᵒˢ ᵃˢ)".into()]
    }
    fn strategy(&self, _tier: Tier) -> BoxedStrategy<Case> {
        let shaped = shaped_texts();
        let from_sentence = text_case(35, 12).prop_map(|tc| (tc.lang.clone(), tc.text(), tc.th_bits));
        let wild = (lang_strategy(), wild_text(), threshold_strategy());
        (prop_oneof![16 => from_sentence, 6 => shaped, 2 => wild, 1 => tie_decimals()], proptest::collection::vec(any::<u8>(), 0..30))
            .prop_map(|((lang, text, th_bits), hints)| Case { lang, text, th_bits, hints })
            .boxed()
    }
    fn cases(&self, tier: Tier) -> u64 {
        tier.pick(4_000_000, 40_000_000)
    }
    fn fuzz_target(&self) -> Option<&'static str> {
        Some("text_api")
    }
    fn from_fuzz_bytes(&self, data: &[u8]) -> Option<Case> {
        let t = crate::fuzzdec::decode_text(data);
        Some(Case { lang: t.lang.into(), text: t.text, th_bits: t.th_bits, hints: t.hints })
    }
    fn check(&self, c: &Case, obs: &mut Obs) -> Result<(), String> {
        let lg = lang(&c.lang);
        let th = th_of(c.th_bits);
        // (a) pipeline tokens
        let (t, o) = scan(&c.text, lg, th);
        let texts: Vec<&str> = t.iter().map(|x| x.text.as_str()).collect();
        let nan: Vec<bool> = t.iter().map(|x| x.nan).collect();
        let i1 = wellformed(&c.lang, &texts, &nan, &o, obs).map_err(|e| format!("{} (text {:?}, th={}, occurrences {:?})", e, c.text, fmt_th(c.th_bits), o))?;
        // exact digits: for a non-decimal occurrence the digits of its text are those of the public digit builder
        // obtained by running the span's words as a group (text formatting must not go through the float value)
        for oc in &o {
            if let Ok(num) = parse_numeral(&c.lang, &oc.text) {
                if num.frac.is_none() && oc.end <= t.len() {
                    let lower: Vec<String> = t[oc.start..oc.end].iter().filter(|x| is_word(&x.text)).map(|x| x.lowercase.clone()).collect();
                    if let Ok(b) = lg.exec_group(lower.iter().map(|x| x.as_str())) {
                        if b.to_string() != num.int {
                            return Err(format!("the occurrence text {:?} does not carry the exact digits {:?} that the digit builder holds for the words {:?} (text {:?})", oc.text, b.to_string(), lower.join(" "), c.text));
                        }
                        obs.label("exact-digits-checked");
                    }
                }
            }
        }
        // (b) own tokens with hints
        let mut stream: Vec<Tk> = t.iter().enumerate().map(|(i, x)| Tk::new(i, &x.text)).collect();
        let hinted = apply_hints(&mut stream, &c.hints);
        let o2 = occs(find_numbers(stream.iter(), lg, th));
        let nan2: Vec<bool> = stream.iter().map(|x| x.nan).collect();
        let i2 = wellformed(&c.lang, &texts, &nan2, &o2, obs).map_err(|e| format!("{} (own-token stream of {:?} with hints {:?}, th={}, occurrences {:?})", e, c.text, c.hints, fmt_th(c.th_bits), o2))?;
        // (c) the same words as a stream without whitespace tokens (hint bytes even) or of word tokens only (odd):
        // what a speech recogniser hands over; occurrences can then be directly adjacent (end == next start)
        let words_only = c.hints.first().map_or(false, |h| h & 0x40 != 0);
        let texts3: Vec<&str> = texts.iter().copied().filter(|x| if words_only { is_word(x) } else { !is_ws(x) }).collect();
        let mut stream3: Vec<Tk> = texts3.iter().enumerate().map(|(i, x)| Tk::new(i, x)).collect();
        apply_hints(&mut stream3, &c.hints);
        let o3 = occs(find_numbers(stream3.iter(), lg, th));
        let nan3: Vec<bool> = stream3.iter().map(|x| x.nan).collect();
        wellformed(&c.lang, &texts3, &nan3, &o3, obs).map_err(|e| format!("{} (stream {:?} without whitespace tokens, hints {:?}, th={}, occurrences {:?})", e, texts3, c.hints, fmt_th(c.th_bits), o3))?;
        obs.label_if(o3.windows(2).any(|w| w[0].end == w[1].start), "adjacent-occurrences(no-gap-stream)");
        obs.label(match o.len() {
            0 => "occurrences=0",
            1 => "occurrences=1",
            _ => "occurrences>=2",
        });
        obs.label_if(hinted, "stream-with-hints");
        if i1 || i2 {
            obs.nontrivial(&(&c.lang, &c.text, c.th_bits));
        }
        obs.sample(|| json!({"lang": c.lang, "text": c.text, "threshold": fmt_th(c.th_bits), "occurrences": o.iter().map(|x| format!("[{},{}) {:?} ord={}", x.start, x.end, x.text, x.ord)).collect::<Vec<_>>()}));
        Ok(())
    }
}
