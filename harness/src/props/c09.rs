//! C09 Lone-number policy: the threshold only ever hides small isolated numbers.
use crate::choose::Canon;
use crate::engine::*;
use crate::gen::*;
use crate::spell;
use crate::util::*;
use proptest::prelude::*;
use serde::{Deserialize, Serialize};
use serde_json::json;
use text2num::{replace_numbers_in_text, LangInterpreter};

#[derive(Clone, Debug, Hash, Serialize, Deserialize)]
pub struct ThSel {
    /// 0: from the threshold pool; 1: value of the i-th recognised number of the text plus delta
    pub kind: u8,
    pub i: u16,
    pub delta: i8,
}
#[derive(Clone, Debug, Hash, Serialize, Deserialize)]
pub struct Case {
    pub lang: String,
    /// "stream": tagged clean sentence; "seq3": three single digits in a row; "lone": filler digit filler
    pub shape: String,
    pub sent: Sentence,
    pub th: Vec<ThSel>,
    pub digits: Vec<u8>,
    pub comma: bool,
}
pub struct C09;

fn resolve(sel: &ThSel, occ0: &[Occ]) -> f64 {
    if sel.kind == 1 && !occ0.is_empty() {
        occ0[sel.i as usize % occ0.len()].value() + sel.delta as f64
    } else {
        THRESHOLDS[idx(sel.i, THRESHOLDS.len())]
    }
}
pub fn small(o: &Occ, t: f64) -> bool {
    (o.text.chars().count() == 1 || o.ord) && o.value() < t
}
#[derive(PartialEq, Clone, Copy, Debug)]
enum Gap {
    Contiguous,
    Broken,
    Undecided,
}

impl Property for C09 {
    type Input = Case;
    fn id(&self) -> &'static str {
        "C09"
    }
    fn rule(&self) -> String {
        "Generated: clean tagged token streams (whole vocabulary words of every class, speller phrases, ordinals next to cardinals, linking words, ordinary words, conjunction/separator words, period vs comma and other punctuation, numbers at both ends) with two thresholds drawn from a pool {0, 10, 3, 100, +inf, NaN, -1, -inf, 7, 1, 2, 1e300, subnormal, 0.5} or set to the exact value of one of the text's numbers +-1. Oracle: (a) occ(t) is a sub-list of occ(0) (same span, text, value, flag); (b) t1 <= t2 => occ(t2) sub-list of occ(t1); (c) t <= 0 or NaN => occ(t) == occ(0); (d) every number of occ(0) that is not small at t (small = one-character text or ordinal, value < t) is in occ(t); (e) reference policy model: a small number is rewritten iff the recognised number directly before or after it is of the same kind (cardinal/ordinal) and the tokens between them are only whitespace, bare hyphens, non-alphabetic tokens other than a lone period, or words of the language's linking vocabulary; an ordinary word or a lone period breaks; the conjunction word counts as a linking word; the model abstains (counted) when the gap contains the decimal-separator word or a number-like word outside every occurrence; (e') the same verdicts on a caller-built stream in which ignorable / ordinary tokens between the numbers are flagged 'not a number part'; (f) fixed relations: two small numbers with one word between them that is derived from a linking word without being one (plural, doubled, contraction, elision; every linking word x 12 derivations, enumerated) stay in words at threshold 10; two digits separated by 1..257 commas or repetitions of a linking word are both rewritten at threshold 10; every single-word string literal of the tree's language module that is neither a number on its own nor a linking / separator word, placed between a number >= 10 and a small number of the same kind (both orders, cardinals and ordinals): when the scanner at threshold 0 reports the two numbers separately with the word outside both, the small one is not rewritten at threshold value+1; three single digits in a row (comma- or space-separated) are all rewritten at every threshold; 'w d w' with a single digit d: untouched iff d < t. Non-trivial = distinct streams with a small number whose fate is decided by a neighbour (released by a neighbour / dropped by a breaker / dropped by a kind change), or value == threshold.".into()
    }
    fn assumptions(&self) -> Vec<String> {
        vec![
            "a word is a linking word iff the language's published vocabulary says so (is_linking on the lowercase form); the generator draws linking words from a copy of those lists".into(),
            "gaps containing the decimal-separator word, or a number-like word that is in no occurrence, are not decided by the statement: the model abstains there; the conjunction word is treated as a linking word in every language".into(),
        ]
    }
    fn strategy(&self, _tier: Tier) -> BoxedStrategy<Case> {
        let thsel = || (0u8..3, any::<u16>(), -1i8..=1).prop_map(|(k, i, delta)| ThSel { kind: if k == 2 { 1 } else { 0 }, i, delta });
        let stream = (sentence_strategy(Mode::Clean, 10), thsel(), thsel()).prop_map(|((lang, sent), a, b)| Case { lang, shape: "stream".into(), sent, th: vec![a, b], digits: vec![], comma: false });
        let seq3 = (lang_strategy(), proptest::collection::vec(0u8..10, 3), thsel(), any::<bool>()).prop_map(|(lang, digits, a, comma)| Case { lang, shape: "seq3".into(), sent: Sentence { lead: String::new(), items: vec![] }, th: vec![a], digits, comma });
        let lone = (lang_strategy(), 0u8..10, thsel()).prop_map(|(lang, d, a)| Case { lang, shape: "lone".into(), sent: Sentence { lead: String::new(), items: vec![] }, th: vec![a], digits: vec![d], comma: false });
        prop_oneof![10 => stream, 1 => seq3, 1 => lone].boxed()
    }
    fn cases(&self, tier: Tier) -> u64 {
        tier.pick(3_000_000, 30_000_000)
    }
    fn enumerate(&self, _tier: Tier, shard: usize, nshards: usize, emit: &mut Emit<Case>) {
        // every single-word literal of the tree's language modules between a number >= 10 and a small one
        {
            let mut k = 0usize;
            for (code, words) in crate::SRC_DICT.iter() {
                for wi in 0..words.len() {
                    for order_kind in 0..4u8 {
                        for d in 0..8u8 {
                            k += 1;
                            if k % nshards != shard {
                                continue;
                            }
                            let sel = ThSel { kind: 0, i: 0, delta: 0 };
                            if !emit(Case { lang: code.to_string(), shape: "srcword".into(), sent: Sentence { lead: String::new(), items: vec![] }, th: vec![sel], digits: vec![(wi / 256) as u8, (wi % 256) as u8, order_kind, d], comma: false }) {
                                return;
                            }
                        }
                    }
                }
            }
        }
        // 'w d w' for every digit x every pool threshold x language; and every digit triple at thresholds 10/inf
        let npool = THRESHOLDS.len() as u64;
        for i in shard_range(7 * 10 * npool, shard, nshards) {
            let lang = LANGS[(i % 7) as usize].to_string();
            let d = ((i / 7) % 10) as u8;
            let p = (i / 70) as u16;
            let sel = ThSel { kind: 0, i: ((p as u32 * 65536 + 65535) / npool as u32).min(65535) as u16, delta: 0 };
            if !emit(Case { lang, shape: "lone".into(), sent: Sentence { lead: String::new(), items: vec![] }, th: vec![sel], digits: vec![d], comma: false }) {
                return;
            }
        }
        // every linking word x 12 derivations that are NOT linking words, between two small numbers, threshold 10
        {
            let pos = |x: f64| THRESHOLDS.iter().position(|t| t.to_bits() == x.to_bits()).unwrap_or(0) as u32;
            let sel = ThSel { kind: 0, i: ((pos(10.0) * 65536 + 32768) / npool as u32) as u16, delta: 0 };
            let mut k = 0u64;
            for lang in LANGS {
                let nl = vocab_of(lang).linking.len();
                for w in 0..nl {
                    for d in 0..12u8 {
                        k += 1;
                        if k as usize % nshards != shard {
                            continue;
                        }
                        if !emit(Case { lang: lang.to_string(), shape: "nearlink".into(), sent: Sentence { lead: String::new(), items: vec![] }, th: vec![sel.clone()], digits: vec![(w % 7) as u8, w as u8, d, ((w + d as usize) % 7) as u8], comma: false }) {
                            return;
                        }
                    }
                }
            }
        }
        // gap lengths around powers of two and round sizes
        let gaps: [usize; 22] = [1, 2, 3, 7, 8, 9, 15, 16, 17, 31, 32, 33, 63, 64, 65, 100, 127, 128, 129, 255, 256, 257];
        for i in shard_range(7 * gaps.len() as u64 * 2 * 3, shard, nshards) {
            let lang = LANGS[(i % 7) as usize].to_string();
            let g = gaps[((i / 7) % gaps.len() as u64) as usize];
            let comma = (i / (7 * gaps.len() as u64)) % 2 == 0;
            let w = (i / (14 * gaps.len() as u64)) as u8;
            let pos = |x: f64| THRESHOLDS.iter().position(|t| t.to_bits() == x.to_bits()).unwrap_or(0) as u32;
            let sel = ThSel { kind: 0, i: ((pos(10.0) * 65536 + 32768) / npool as u32) as u16, delta: 0 };
            if !emit(Case { lang, shape: "gap".into(), sent: Sentence { lead: String::new(), items: vec![] }, th: vec![sel], digits: vec![w, w.wrapping_mul(5).wrapping_add(1), (g / 8) as u8, (g % 8) as u8], comma }) {
                return;
            }
        }
        for i in shard_range(7 * 1000 * 2, shard, nshards) {
            let lang = LANGS[(i % 7) as usize].to_string();
            let v = (i / 7) % 1000;
            let comma = i / 7000 == 1;
            // thresholds 10 and +inf, addressed by their position in the pool
            let pos = |x: f64| THRESHOLDS.iter().position(|t| t.to_bits() == x.to_bits()).unwrap_or(0) as u32;
            let k = if v % 2 == 0 { pos(10.0) } else { pos(f64::INFINITY) };
            let sel = ThSel { kind: 0, i: ((k * 65536 + 32768) / npool as u32) as u16, delta: 0 };
            if !emit(Case { lang, shape: "seq3".into(), sent: Sentence { lead: String::new(), items: vec![] }, th: vec![sel], digits: vec![(v / 100) as u8, (v / 10 % 10) as u8, (v % 10) as u8], comma }) {
                return;
            }
        }
    }
    fn check(&self, c: &Case, obs: &mut Obs) -> Result<(), String> {
        let lg = lang(&c.lang);
        let l = c.lang.as_str();
        let v = vocab_of(l);
        if c.shape == "srcword" {
            // a word that the tree's own language module mentions as a literal, that is_linking denies and that is no
            // number on its own, standing between a number >= 10 and a small number: if the scanner (threshold 0) sees the
            // two numbers as separate occurrences with the word outside both, the small one is isolated at threshold 10
            let words = crate::SRC_DICT.iter().find(|(code, _)| *code == l).map(|(_, ws)| *ws).unwrap_or(&[]);
            let Some(w) = words.get(c.digits[0] as usize * 256 + c.digits[1] as usize) else { return Ok(()) };
            let known = v.number_words.iter().any(|x| x.to_lowercase() == *w) || v.linking.contains(w) || *w == v.conj || *w == v.sep || v.conj_alts.contains(w) || v.zeros.contains(w);
            let lib_says = no_panic("is_linking / is_decimal_sep / text2digits on a word of the language module", || lg.is_linking(w) || lg.is_decimal_sep(w) || text2num::text2digits(w, lg).is_ok())?;
            if known || lib_says {
                obs.exclude("source-word-is-number-linking-or-separator");
                return Ok(());
            }
            let d = 2 + c.digits[3] % 7;
            let ordinal = c.digits[2] & 2 != 0;
            let (big, small) = if ordinal {
                match (spell::ordinal(l, 10 + (c.digits[3] as u64 % 3) * 10, &mut Canon), spell::ordinal(l, d as u64, &mut Canon)) {
                    (Some(a), Some(b)) => (a.0.join(" "), b.0.join(" ")),
                    _ => return Ok(()),
                }
            } else {
                (spell::cardinal_nk(l, [20u64, 100, 10, 30][c.digits[3] as usize % 4], &mut Canon).join(" "), if l == "de" && d == 1 { "eins".to_string() } else { spell::cardinal(l, d as u64, &mut Canon).join(" ") })
            };
            let text = if c.digits[2] & 1 == 0 { format!("{} {} {}", big, w, small) } else { format!("{} {} {}", small, w, big) };
            let (toks, occ0) = no_panic("find_numbers", || scan(&text, lg, 0.0))?;
            let wi = toks.iter().position(|t| t.lowercase == *w);
            let separate = occ0.len() == 2 && wi.map_or(false, |i| occ0[0].end <= i && i < occ0[1].start);
            if !separate {
                obs.exclude("source-word-absorbed-or-numbers-not-separate");
                return Ok(());
            }
            let small_occ = if c.digits[2] & 1 == 0 { &occ0[1] } else { &occ0[0] };
            let is_small = small_occ.ord || small_occ.text.chars().count() == 1;
            let t = small_occ.value() + 1.0;
            let (_, occ_t) = no_panic("find_numbers", || scan(&text, lg, t))?;
            if is_small && occ_t.iter().any(|o| o.start == small_occ.start) {
                return Err(format!("[{}] threshold {}: in {:?} the small number {:?} is rewritten although the only word next to it, {:?}, is not a linking word (is_linking = false) and the other number is a separate occurrence", l, t, text, small_occ.text, w));
            }
            obs.label("fixed:source-literal-word-between-numbers");
            obs.nontrivial(&(l, &text));
            return Ok(());
        }
        let digit = |d: u8| -> String {
            if d == 0 {
                spell::zero_word(l).to_string()
            } else if l == "de" && d == 1 {
                "eins".into()
            } else {
                spell::cardinal(l, d as u64, &mut Canon).join(" ")
            }
        };
        match c.shape.as_str() {
            "seq3" => {
                let t = resolve(&c.th[0], &[]);
                let words: Vec<String> = c.digits.iter().map(|d| digit(*d)).collect();
                let sep = if c.comma { ", " } else { " " };
                let text = words.join(sep);
                // zeros attach to the following digit (C08); with commas every digit stands alone
                let want = if c.comma { c.digits.iter().map(|d| d.to_string()).collect::<Vec<_>>().join(", ") } else { super::c08::dictation_groups(&c.digits.iter().map(|d| d.to_string()).collect::<String>()).join(" ") };
                let out = replace_numbers_in_text(&text, lg, t);
                if out != want {
                    return Err(format!("[{}] a sequence of digits must be rewritten at every threshold: {:?} at t={:?} -> {:?}, expected {:?}", l, text, t, out, want));
                }
                obs.label("fixed:three-digits-in-a-row");
                obs.nontrivial(&(l, &text, t.to_bits()));
                return Ok(());
            }
            "gap" => {
                // two single digits separated by N ignorable tokens (commas or one linking word repeated):
                // however long the run, they stay neighbours and are rewritten at every threshold
                let t = resolve(&c.th[0], &[]);
                let n = c.digits.get(2).copied().unwrap_or(1) as usize * 8 + c.digits.get(3).copied().unwrap_or(0) as usize;
                let filler: String = if c.comma { ", ".repeat(n.max(1)) } else { format!(" {}", v.linking[c.digits[1] as usize % v.linking.len()]).repeat(n.max(1)) + " " };
                let (d1, d2) = (2 + c.digits[0] % 7, 3 + c.digits[1] % 6);
                let text = format!("{}{}{}", digit(d1), filler, digit(d2));
                let out = replace_numbers_in_text(&text, lg, t);
                let want = format!("{}{}{}", d1, filler, d2);
                // the linking word may itself be a number word in this language (pt `um`): then the oracle does not apply
                if !c.comma && text2num::text2digits(v.linking[c.digits[1] as usize % v.linking.len()], lg).is_ok() {
                    obs.exclude("linking-word-is-a-number-word");
                    return Ok(());
                }
                if out != want {
                    let cut = |x: &str| if x.len() > 160 { format!("{}…{}", &x[..60], &x[x.len() - 60..]) } else { x.to_string() };
                    return Err(format!("[{}] two small numbers separated only by {} ignorable tokens must both be rewritten at threshold {:?}: {:?} -> {:?}", l, n.max(1), t, cut(&text), cut(&out)));
                }
                obs.label("fixed:long-gap-of-ignorable-tokens");
                obs.nontrivial(&(l, n, c.comma, t.to_bits()));
                return Ok(());
            }
            "nearlink" => {
                // two small numbers with ONE word between them that is derived from a linking word but is not one
                // (contraction, elision, extra letter ...): it is an ordinary word, so both numbers stay isolated
                let t = resolve(&c.th[0], &[]);
                let base = v.linking[c.digits[1] as usize % v.linking.len()];
                let n = base.chars().count();
                let x: String = match c.digits[2] % 12 {
                    0 => format!("{}s", base),
                    1 => format!("{}{}", base, base),
                    2 => format!("x{}", base),
                    3 if n >= 3 => { let (h, tl): (String, String) = (base.chars().take(n - 2).collect(), base.chars().skip(n - 2).collect()); format!("{}'{}", h, tl) }
                    4 if n >= 2 => { let (h, tl): (String, String) = (base.chars().take(n - 1).collect(), base.chars().skip(n - 1).collect()); format!("{}'{}", h, tl) }
                    5 => format!("l'{}", base),
                    6 => format!("qu'{}", base),
                    7 => format!("jusqu'{}", base),
                    8 => format!("d'{}", base),
                    9 => format!("{}'s", base),
                    10 => format!("{}-{}", base, v.fillers[0]),
                    _ => format!("un'{}", base),
                };
                // the derived word must not itself be a number or a published linking word in this tree
                // ... nor a word the interpreter takes for a potential part of a number (e.g. de `undund` splits into und+und)
                let incomplete = {
                    let mut b1 = text2num::digit_string::DigitString::new();
                    let mut b2 = text2num::digit_string::DigitString::new();
                    let _ = lg.apply(&digit(2 + c.digits[0] % 7).to_lowercase(), &mut b2);
                    matches!(lg.apply(&x.to_lowercase(), &mut b1), Err(text2num::error::Error::Incomplete)) || matches!(lg.apply(&x.to_lowercase(), &mut b2), Err(text2num::error::Error::Incomplete))
                };
                // (the published linking vocabulary is the harness's copy of the INSIGNIFICANT lists here, not the answer of
                // is_linking: a lookup that starts accepting contractions / elisions of linking words is exactly what this
                // relation is meant to notice)
                if incomplete || v.linking.contains(&x.to_lowercase().as_str()) || text2num::text2digits(&x, lg).is_ok() || v.conj_alts.contains(&x.as_str()) {
                    obs.exclude("derived-word-is-linking-or-number");
                    return Ok(());
                }
                let (d1, d2) = (2 + c.digits[0] % 7, 2 + c.digits[3] % 7);
                let text = format!("{} {} {}", digit(d1), x, digit(d2));
                let out = replace_numbers_in_text(&text, lg, t);
                let want = if t > d1.max(d2) as f64 { text.clone() } else { out.clone() };
                if out != want {
                    return Err(format!("[{}] threshold {:?}: {:?} -> {:?}; the word {:?} is not a linking word, so the two small numbers are isolated and stay in words", l, t, text, out, x));
                }
                obs.label("fixed:near-miss-linking-word");
                obs.nontrivial(&(l, &text));
                return Ok(());
            }
            "lone" => {
                let t = resolve(&c.th[0], &[]);
                let d = c.digits[0];
                let w = v.fillers[0];
                let text = format!("{} {} {}", w, digit(d), w);
                let rewritten = format!("{} {} {}", w, d, w);
                let want = if (d as f64) < t { text.clone() } else { rewritten };
                let out = replace_numbers_in_text(&text, lg, t);
                if out != want {
                    return Err(format!("[{}] lone digit {} at threshold {:?}: {:?} -> {:?}, expected {:?} (left in words iff value < threshold)", l, d, t, text, out, want));
                }
                obs.label(if (d as f64) < t { "fixed:lone-digit-hidden" } else { "fixed:lone-digit-rewritten" });
                obs.label_if(d as f64 == t, "value==threshold");
                obs.nontrivial(&(l, &text, t.to_bits()));
                return Ok(());
            }
            _ => {}
        }
        let text = c.sent.render();
        let (toks, o0) = scan(&text, lg, 0.0);
        let mut ts: Vec<f64> = c.th.iter().map(|s| resolve(s, &o0)).collect();
        if ts.len() == 2 && ts[0] > ts[1] {
            ts.swap(0, 1);
        }
        let occs_at: Vec<Vec<Occ>> = ts.iter().map(|&t| scan(&text, lg, t).1).collect();
        let is_sublist = |a: &[Occ], b: &[Occ]| -> bool {
            let mut it = b.iter();
            a.iter().all(|x| it.any(|y| y == x))
        };
        let show = |o: &[Occ]| o.iter().map(|x| format!("[{},{}){:?}", x.start, x.end, x.text)).collect::<Vec<_>>().join(" ");
        // classify gaps between consecutive recognised numbers
        let filler_words: std::collections::HashSet<String> = c.sent.items.iter().filter(|i| i.class == Class::Filler).map(|i| i.text.to_lowercase()).collect();
        let gap = |a: usize, b: usize| -> Gap {
            let mut und = false;
            for x in &toks[a..b] {
                let tx = x.text.as_str();
                let lo = x.lowercase.as_str();
                if scanner_skips(tx) {
                    continue;
                }
                if !has_alpha(tx) {
                    if tx.trim() == "." {
                        return Gap::Broken;
                    }
                    continue;
                }
                // the conjunction word between two numbers links them (it is the linking word par excellence;
                // in the languages where it is not in the published linking list the scanner skips it as a
                // potential part of the number); the decimal-separator word stays undecided (it is skipped
                // after a number but is an ordinary word elsewhere)
                if v.conj_alts.contains(&lo) {
                    continue;
                }
                if lo == v.sep {
                    und = true;
                    continue;
                }
                // the linking vocabulary is whatever the language publishes (LangInterpreter::is_linking on the
                // lowercase form), so that adding or removing a linking word is not reported as a policy violation
                if lg.is_linking(lo) {
                    continue;
                }
                if filler_words.contains(lo) {
                    return Gap::Broken;
                }
                // a number-like word that is in no occurrence (set aside, rejected, incomplete)
                und = true;
            }
            if und {
                Gap::Undecided
            } else {
                Gap::Contiguous
            }
        };
        let mut nontrivial = false;
        for (k, &t) in ts.iter().enumerate() {
            let o = &occs_at[k];
            // (a)
            if !is_sublist(o, &o0) {
                return Err(format!("[{}] {:?}: occurrences at threshold {:?} are not a sub-list of those at 0\n t: {}\n 0: {}", l, text, t, show(o), show(&o0)));
            }
            // (c)
            if !(t > 0.0) && o != &o0 {
                return Err(format!("[{}] {:?}: threshold {:?} (<= 0 or NaN) must rewrite everything\n t: {}\n 0: {}", l, text, t, show(o), show(&o0)));
            }
            for (i, oc) in o0.iter().enumerate() {
                let present = o.contains(oc);
                if !small(oc, t) {
                    // (d)
                    if !present {
                        return Err(format!("[{}] {:?}: {:?} is not small at threshold {:?} (multi-digit cardinal, decimal, leading zeros, or value >= threshold) but was not rewritten\n t: {}", l, text, oc.text, t, show(o)));
                    }
                    continue;
                }
                obs.label_if(oc.value() == t - 1.0 || oc.value() == t, "value-next-to-threshold");
                // (e)
                let prev = if i > 0 {
                    if o0[i - 1].ord == oc.ord {
                        gap(o0[i - 1].end, oc.start)
                    } else {
                        obs.label("neighbour-of-other-kind");
                        Gap::Broken
                    }
                } else {
                    Gap::Broken
                };
                let next = if i + 1 < o0.len() {
                    if o0[i + 1].ord == oc.ord {
                        gap(oc.end, o0[i + 1].start)
                    } else {
                        obs.label("neighbour-of-other-kind");
                        Gap::Broken
                    }
                } else {
                    Gap::Broken
                };
                let expect = if prev == Gap::Contiguous || next == Gap::Contiguous {
                    Some(true)
                } else if prev == Gap::Broken && next == Gap::Broken {
                    Some(false)
                } else {
                    None
                };
                match expect {
                    None => obs.label("policy-model-abstains"),
                    Some(e) => {
                        if present != e {
                            return Err(format!(
                                "[{}] {:?} at threshold {:?}: the small number {:?} (tokens [{},{})) should {} (gap before: {:?}, after: {:?})\n t: {}\n 0: {}",
                                l,
                                text,
                                t,
                                oc.text,
                                oc.start,
                                oc.end,
                                if e { "be rewritten: a number of the same kind is directly next to it" } else { "stay in words: it is isolated" },
                                prev,
                                next,
                                show(o),
                                show(&o0)
                            ));
                        }
                        if e {
                            obs.label(if next == Gap::Contiguous && prev != Gap::Contiguous { "small:held-then-released-by-next" } else { "small:released-by-previous" });
                            nontrivial = true;
                        } else if i + 1 < o0.len() || i > 0 {
                            obs.label("small:dropped(breaker-or-kind-change)");
                            nontrivial = true;
                        } else {
                            obs.label("small:alone-in-text");
                        }
                    }
                }
            }
        }
        // the same policy on a caller-built stream in which some tokens BETWEEN the numbers declare themselves
        // 'not a number part': a flagged linking word / punctuation token is still ignorable, a flagged
        // ordinary word still isolates; recognition is unchanged because no token of a number is flagged
        if !o0.is_empty() {
            let mut stream: Vec<Tk> = toks.iter().enumerate().map(|(i, x)| Tk::new(i, &x.text)).collect();
            let mut inside = vec![false; stream.len()];
            for oc in &o0 {
                for k in oc.start..oc.end.min(stream.len()) {
                    inside[k] = true;
                }
            }
            let mut flagged = 0;
            // only streams whose gap tokens are all plainly ignorable or plainly ordinary: a conjunction or
            // separator word (a potential part of a number) changes role with what surrounds it
            let clean_gaps = (0..stream.len()).all(|k| {
                let lo = stream[k].lower.as_str();
                inside[k] || scanner_skips(&stream[k].text) || !has_alpha(&stream[k].text) || (!v.conj_alts.contains(&lo) && lo != v.sep && (lg.is_linking(lo) || filler_words.contains(lo)))
            });
            for (k, tk) in stream.iter_mut().enumerate() {
                if !clean_gaps {
                    break;
                }
                // flag roughly every second gap token that the scanner examines and that is not a number-like word
                let lo = tk.lower.clone();
                let plain_gap = !inside[k] && !scanner_skips(&tk.text) && (!has_alpha(&tk.text) || lg.is_linking(&lo) || filler_words.contains(&lo));
                // (the conjunction word is not flagged: where it is not a published linking word it is ignorable only
                // as a potential part of a number, which a 'not a number part' flag rules out)
                if plain_gap && (k + tk.text.len()) % 2 == 0 {
                    tk.nan = true;
                    flagged += 1;
                }
                // carry over the library's own annotation (French neuf, English o)
                if toks[k].nan {
                    tk.nan = true;
                }
            }
            if flagged > 0 {
                for (k, &t) in ts.iter().enumerate() {
                    let got = occs(text2num::find_numbers(stream.iter(), lg, t));
                    if got != occs_at[k] {
                        return Err(format!("[{}] {:?} at threshold {:?}: flagging {} ignorable / ordinary tokens between the numbers as 'not a number part' changed which numbers are rewritten\n plain   {}\n flagged {}", l, text, t, flagged, show(&occs_at[k]), show(&got)));
                    }
                }
                obs.label("policy-with-flagged-gap-tokens");
            }
        }
        // (b)
        if ts.len() == 2 && ts[0] <= ts[1] && !is_sublist(&occs_at[1], &occs_at[0]) {
            return Err(format!("[{}] {:?}: raising the threshold from {:?} to {:?} added a rewrite\n t1: {}\n t2: {}", l, text, ts[0], ts[1], show(&occs_at[0]), show(&occs_at[1])));
        }
        obs.label(match o0.len() {
            0 => "numbers=0",
            1 => "numbers=1",
            2 | 3 => "numbers=2-3",
            _ => "numbers>=4",
        });
        if nontrivial {
            obs.nontrivial(&(l, &text, ts.iter().map(|t| t.to_bits()).collect::<Vec<_>>()));
        }
        obs.sample(|| json!({"lang": l, "text": text, "thresholds": ts.iter().map(|t| format!("{:?}", t)).collect::<Vec<_>>(), "at_0": show(&o0), "at_t": occs_at.iter().map(|o| show(o)).collect::<Vec<_>>()}));
        Ok(())
    }
}
