//! t2n-verif: property-based verification harness for text2num-rs (see /verif/DESIGN.md)
use t2n_verif::engine::{Opts, Tier};
use t2n_verif::props;

fn usage() -> ! {
    eprintln!("usage: t2n-verif --property <ID> [--tier quick|thorough] [--replay FILE] [--threads N]");
    std::process::exit(2)
}

fn main() {
    let args: Vec<String> = std::env::args().collect();
    let mut id = String::new();
    let mut tier = match std::env::var("VERIF_TIER").as_deref() {
        Ok("thorough") => Tier::Thorough,
        _ => Tier::Quick,
    };
    let mut replay = None;
    let mut threads = std::thread::available_parallelism().map(|n| n.get()).unwrap_or(4).min(16);
    if args.get(1).map(|s| s.as_str()) == Some("--silent-worker") {
        // C14 silence check: run the workload, report through a file, never through the streams
        std::panic::set_hook(Box::new(|_| {}));
        let seed: u64 = std::env::var("VERIF_SEED").ok().and_then(|s| s.parse().ok()).unwrap_or(0);
        let from: usize = args.get(3).and_then(|s| s.parse().ok()).unwrap_or(0);
        let to: usize = args.get(4).and_then(|s| s.parse().ok()).unwrap_or(usize::MAX);
        let n = props::c14::silent_workload(seed, from, to);
        if let Some(path) = args.get(2) {
            let _ = std::fs::write(path, format!("done {}", n));
        }
        std::process::exit(0);
    }
    if args.get(1).map(|s| s.as_str()) == Some("--c03-long-worker") {
        std::panic::set_hook(Box::new(|_| {}));
        let n: usize = args.get(3).and_then(|s| s.parse().ok()).unwrap_or(100_000);
        let only: Option<usize> = args.get(4).and_then(|s| s.parse().ok());
        props::c03::long_worker(args.get(2).map(|s| s.as_str()).unwrap_or("/dev/null"), n, only);
        std::process::exit(0);
    }
    if args.get(1).map(|s| s.as_str()) == Some("--vocab-report") {
        for l in t2n_verif::util::LANGS {
            let v = t2n_verif::gen::vocab_of(l);
            let raw = t2n_verif::spell::vocab::common_words_raw(l);
            let dropped: Vec<&str> = raw.iter().copied().filter(|w| !v.fillers.contains(w)).collect();
            if args.get(2).map(|s| s.as_str()) == Some("--classes") {
                for (k, c) in v.classes.iter().enumerate() {
                    println!("  {} class {} ({}): {}", l, k, c.len(), c.join(" "));
                }
            }
            println!("  {} words harvested from the tree's source: {:?}", l, v.srcdict);
            println!("  {} multi-word expressions harvested from the tree's source: {:?}", l, v.phrases);
            println!("{}: {} ordinary words ({} everyday words kept), {} number words, {} linking words; dropped as number/linking/known: {:?}", l, v.fillers.len(), v.common.len(), v.number_words.len(), v.linking.len(), dropped);
        }
        return;
    }
    let mut i = 1;
    while i < args.len() {
        match args[i].as_str() {
            "--property" => {
                i += 1;
                id = args.get(i).cloned().unwrap_or_else(|| usage());
            }
            "--tier" => {
                i += 1;
                tier = match args.get(i).map(|s| s.as_str()) {
                    Some("quick") => Tier::Quick,
                    Some("thorough") => Tier::Thorough,
                    _ => usage(),
                };
            }
            "--replay" => {
                i += 1;
                replay = Some(std::path::PathBuf::from(args.get(i).cloned().unwrap_or_else(|| usage())));
            }
            "--threads" => {
                i += 1;
                threads = args.get(i).and_then(|s| s.parse().ok()).unwrap_or_else(|| usage());
            }
            _ => usage(),
        }
        i += 1;
    }
    // VERIF_SEED: any integer; 0 / unset is remapped to a fixed constant
    let seed: u64 = std::env::var("VERIF_SEED")
        .ok()
        .and_then(|s| s.trim().parse::<i128>().ok())
        .map(|v| v as u64)
        .unwrap_or(0);
    let scale: f64 = std::env::var("VERIF_SCALE").ok().and_then(|s| s.parse().ok()).unwrap_or(1.0);
    let opts = Opts { tier, seed, replay, threads, scale };
    // watchdog: a hang is inconclusive (exit 2), never a violation
    let cap = std::time::Duration::from_secs(match tier {
        Tier::Quick => 15 * 60,
        Tier::Thorough => 3 * 3600,
    });
    std::thread::spawn(move || {
        std::thread::sleep(cap);
        println!("INCONCLUSIVE: watchdog expired after {:?}", cap);
        std::process::exit(2);
    });
    let code = props::dispatch(&id, &opts);
    std::process::exit(code)
}
