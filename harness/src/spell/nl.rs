use super::*;
const U: [&str; 20] = ["nul","een","twee","drie","vier","vijf","zes","zeven","acht","negen","tien","elf","twaalf","dertien","veertien","vijftien","zestien","zeventien","achttien","negentien"];
const T: [&str; 10] = ["","","twintig","dertig","veertig","vijftig","zestig","zeventig","tachtig","negentig"];

/// morphemes of 1..99
pub fn below100(n: u32, c: &mut dyn Chooser) -> Vec<String> {
    debug_assert!(n > 0 && n < 100);
    if n == 1 { return vec![s(if c.pick(4) == 3 { "één" } else { "een" })]; }
    if n < 20 { return vec![s(U[n as usize])]; }
    let (t, u) = (n / 10, n % 10);
    if u == 0 { return vec![s(T[t as usize])]; }
    let link = if u == 2 || (u == 3 && c.pick(4) != 3) { "ën" } else { "en" };
    vec![s(if u == 1 && c.pick(4) == 3 { "één" } else { U[u as usize] }), s(link), s(T[t as usize])]
}
fn group(g: u32, c: &mut dyn Chooser, m: &mut Vec<String>) {
    let (h, r) = (g / 100, g % 100);
    if h == 1 { m.push(s("honderd")); } else if h > 1 { m.push(s(U[h as usize])); m.push(s("honderd")); }
    if r > 0 { m.extend(below100(r, c)); }
}
fn join(m: Vec<String>, mode: usize) -> Vec<String> {
    let mut out: Vec<String> = vec![]; let mut cur = String::new();
    for w in m {
        cur.push_str(&w);
        let brk = match mode { 0 => false, 2 => w == "honderd", _ => true };
        if mode == 3 && w == "ën" && !cur.is_empty() { cur = s("en"); }
        if brk { out.push(std::mem::take(&mut cur)); }
    }
    if !cur.is_empty() { out.push(cur); }
    out
}
pub fn cardinal(n: u64, c: &mut dyn Chooser) -> Vec<String> { cardinal_or_ordinal(n, c, false) }
fn cardinal_or_ordinal(n: u64, c: &mut dyn Chooser, ord: bool) -> Vec<String> {
    if n == 0 { return vec![s("nul")]; }
    let g = groups(n);
    // 0 standard (break after duizend); 1 one word below a million; 2 standard + break after honderd (not inside the multiplier of duizend); 3 every morpheme apart
    let style = c.pick(4);
    let mut out = vec![];
    for (i, name) in [(3usize, "miljard"), (2, "miljoen")] {
        if g[i] == 1 && out.is_empty() && c.pick(6) == 5 {
            // bare scale noun, implicit one ("de miljoenste bezoeker")
            out.push(s(name));
            continue;
        }
        if g[i] > 0 { let mut m = vec![]; group(g[i], c, &mut m);
            let mut w = join(m, match style { 0 | 1 => 0, 2 => 2, _ => 3 });
            if style <= 1 && c.pick(4) == 3 { let l = w.pop().unwrap(); w.push(format!("{}{}", l, name)); } else { w.push(s(name)); }
            out.extend(w); }
    }
    let r = (n % 1_000_000) as u32;
    let (mut t, mut u) = (vec![], vec![]);
    if (1100..10000).contains(&r) && (r / 100) % 10 != 0 && c.pick(3) == 2 {
        // "negentienhonderd drieënzeventig"
        u.extend(below100(r / 100, c)); u.push(s("honderd"));
        if r % 100 > 0 { u.extend(below100(r % 100, c)); }
    } else {
        if g[1] == 1 { t.push(s("duizend")); } else if g[1] > 1 { group(g[1], c, &mut t); t.push(s("duizend")); }
        if g[0] > 0 { group(g[0], c, &mut u); }
    }
    if ord {
        let tgt = if u.is_empty() { &mut t } else { &mut u };
        if tgt.is_empty() { let l = out.pop().unwrap(); out.push(format!("{}ste", l)); }
        else { let l = tgt.pop().unwrap(); tgt.push(ord_word(&l)); }
    }
    // optional connector "en" after duizend / honderd before a last part below 13 ("duizend en een",
    // "honderdeneerste"): the part after it must be a single small number word
    let small_tail = u.len() == 1 || (u.len() == 2 && u[0] == "honderd" && false);
    if style == 0 && !t.is_empty() && small_tail && c.pick(6) == 5 {
        out.extend(join(t, 0)); out.push(s("en")); out.extend(join(u, 0));
        return out;
    }
    if (style == 0 || style == 1) && u.len() == 2 && u[0] == "honderd" && t.is_empty() && c.pick(6) == 5 {
        // glued "honderdeneen" / "honderdeneerste"
        out.push(format!("honderden{}", u[1]));
        return out;
    }
    // rare: the whole numeral written as ONE word, scale nouns included (not the school-book spelling, but
    // compound-splitting accepts it and speech-to-text front ends produce it)
    if style == 1 && !out.is_empty() && c.pick(8) == 7 {
        t.extend(u);
        let rest = join(t, 0);
        let all: String = out.iter().map(|w| if w == "ën" { "en".to_string() } else { w.clone() }).collect::<Vec<_>>().concat() + &rest.concat();
        return vec![all];
    }
    match style {
        0 => { out.extend(join(t, 0)); out.extend(join(u, 0)); }
        1 => { t.extend(u); out.extend(join(t, 0)); }
        2 => { out.extend(join(t, 0)); let mut w = join(u, 2);
               if w.len() == 2 && c.pick(3) == 2 { w.insert(1, s("en")); }
               out.extend(w); }
        _ => { out.extend(join(t, 3)); out.extend(join(u, 3)); }
    }
    out
}

fn ord_word(w: &str) -> String {
    match w { "een" | "één" => s("eerste"), "drie" => s("derde"), "acht" => s("achtste"),
        _ if w.ends_with("tig") || w == "honderd" || w == "duizend" => format!("{}ste", w),
        _ => format!("{}de", w) }
}
pub fn ordinal(n: u64, c: &mut dyn Chooser) -> (Vec<String>, String) { (cardinal_or_ordinal(n, c, true), s("e")) }
