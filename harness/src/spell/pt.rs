use super::*;
const U: [&str; 20] = ["zero","um","dois","três","quatro","cinco","seis","sete","oito","nove","dez","onze","doze","treze","catorze","quinze","dezasseis","dezassete","dezoito","dezanove"];
const UB: [&str; 20] = ["zero","um","dois","tres","quatro","cinco","seis","sete","oito","nove","dez","onze","doze","treze","quatorze","quinze","dezesseis","dezessete","dezoito","dezenove"];
const T: [&str; 10] = ["","","vinte","trinta","quarenta","cinquenta","sessenta","setenta","oitenta","noventa"];
const H: [&str; 10] = ["","cento","duzentos","trezentos","quatrocentos","quinhentos","seiscentos","setecentos","oitocentos","novecentos"];

fn unit(k: u32, c: &mut dyn Chooser, fem: bool) -> String {
    if fem && k == 1 { return s("uma"); }
    if fem && k == 2 { return s("duas"); }
    s(if c.pick(4) == 3 { UB[k as usize] } else { U[k as usize] })
}
pub fn below100(n: u32, c: &mut dyn Chooser, fem: bool, out: &mut Vec<String>) {
    debug_assert!(n > 0 && n < 100);
    if n < 20 { out.push(unit(n, c, fem)); return; }
    out.push(s(T[(n / 10) as usize]));
    if n % 10 > 0 { out.push(s("e")); out.push(unit(n % 10, c, fem)); }
}
fn group(g: u32, c: &mut dyn Chooser, fem: bool, out: &mut Vec<String>) {
    let (h, r) = (g / 100, g % 100);
    if h == 1 { out.push(s(if r == 0 { "cem" } else { "cento" })); }
    else if h > 1 { let w = H[h as usize]; out.push(if fem { format!("{}as", &w[..w.len() - 2]) } else { s(w) }); }
    if r > 0 { if h > 0 { out.push(s("e")); } below100(r, c, fem, out); }
}
/// spell a sequence of (group value, scale index) pairs, most significant first; scale names given by `name`
fn chain(parts: &[(u32, usize)], c: &mut dyn Chooser, fem: bool, out: &mut Vec<String>) {
    let nz: Vec<&(u32, usize)> = parts.iter().filter(|p| p.0 > 0).collect();
    for (k, &&(g, sc)) in nz.iter().enumerate() {
        if k > 0 && (g < 100 || g % 100 == 0) {
            let last = k + 1 == nz.len();
            let prev_is_mil = nz[k - 1].1 == 1;
            // "e" mandatory after mil when what follows is < 100; canonical before the last group; optional otherwise
            let put = if prev_is_mil && sc == 0 && g < 100 { true } else if last { c.pick(4) != 3 } else { c.pick(4) == 3 };
            if put { out.push(s("e")); }
        }
        match sc {
            0 => group(g, c, fem, out),
            1 => { if g > 1 { group(g, c, fem, out); } out.push(s("mil")); }
            2 => { group(g, c, false, out); out.push(s(if g == 1 { "milhão" } else { "milhões" })); }
            _ => { group(g, c, false, out); out.push(s(if g == 1 { "bilhão" } else { "bilhões" })); }
        }
    }
}
pub fn cardinal(n: u64, c: &mut dyn Chooser) -> Vec<String> {
    if n == 0 { return vec![s("zero")]; }
    let fem = c.pick(4) == 3;
    let g = groups(n);
    let mut out = vec![];
    if g[3] > 0 && c.pick(2) == 1 {
        // european: "mil milhões"
        let m = g[3] * 1000 + g[2]; // millions multiplier up to 999_999
        let mut mm = vec![];
        chain(&[(m / 1000, 1), (m % 1000, 0)], c, false, &mut mm);
        out.extend(mm); out.push(s("milhões"));
        let mut rest = vec![];
        chain(&[(g[1], 1), (g[0], 0)], c, fem, &mut rest);
        // conjunction between "milhões" and the rest follows the same rule: only when the rest is a single small/round group
        let nzrest = [g[1], g[0]].iter().filter(|&&x| x > 0).count();
        if nzrest == 1 { let gg = if g[1] > 0 { g[1] } else { g[0] }; if (gg < 100 || gg % 100 == 0) && c.pick(4) != 3 { out.push(s("e")); } }
        out.extend(rest);
    } else {
        chain(&[(g[3], 3), (g[2], 2), (g[1], 1), (g[0], 0)], c, fem, &mut out);
    }
    out
}

const OU: [&str; 10] = ["","primeir","segund","terceir","quart","quint","sext","sétim","oitav","non"];
const OT: [&str; 10] = ["","décim","vigésim","trigésim","quadragésim","quinquagésim","sexagésim","septuagésim","octogésim","nonagésim"];
const OH: [&str; 10] = ["","centésim","ducentésim","trecentésim","quadringentésim","quingentésim","sexcentésim","septingentésim","octingentésim","noningentésim"];
/// n in 1..2000
pub fn ordinal(n: u64, c: &mut dyn Chooser) -> Option<(Vec<String>, String)> {
    let n = n as u32;
    let (end, marker) = [("o", "º"), ("a", "ª"), ("os", "ᵒˢ"), ("as", "ᵃˢ")][c.pick(4)];
    let mut w: Vec<String> = vec![];
    if n >= 1000 { w.push(format!("milésim{}", end)); }
    let (h, r) = (n % 1000 / 100, n % 100);
    if h > 0 { let hw = match h { 6 if c.pick(4) == 3 => "seiscentésim", 9 if c.pick(4) == 3 => "nongentésim", _ => OH[h as usize] }; w.push(format!("{}{}", hw, end)); }
    let (t, u) = (r / 10, r % 10);
    if t > 0 { let tw = if t == 7 && c.pick(4) == 3 { "setuagésim" } else { OT[t as usize] }; w.push(format!("{}{}", tw, end)); }
    if u > 0 { w.push(format!("{}{}", OU[u as usize], end)); }
    Some((w, s(marker)))
}
