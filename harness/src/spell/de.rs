use super::*;
const U: [&str; 20] = ["null","ein","zwei","drei","vier","fünf","sechs","sieben","acht","neun","zehn","elf","zwölf","dreizehn","vierzehn","fünfzehn","sechzehn","siebzehn","achtzehn","neunzehn"];
const T: [&str; 10] = ["","","zwanzig","dreißig","vierzig","fünfzig","sechzig","siebzig","achtzig","neunzig"];

/// morphemes of 1..99 ; `eins`: write a final 1 as "eins"
pub fn below100(n: u32, c: &mut dyn Chooser, eins: bool) -> Vec<String> {
    debug_assert!(n > 0 && n < 100);
    if n == 1 { return vec![s(if eins { "eins" } else { "ein" })]; }
    if n < 20 { return vec![s(U[n as usize])]; }
    let (t, u) = (n / 10, n % 10);
    let tw = if t == 3 && c.pick(4) == 3 { s("dreissig") } else { s(T[t as usize]) };
    if u == 0 { vec![tw] } else { vec![s(U[u as usize]), s("und"), tw] }
}
fn group(g: u32, c: &mut dyn Chooser, eins: bool, m: &mut Vec<String>) {
    let (h, r) = (g / 100, g % 100);
    if h == 1 { if c.pick(2) == 0 { m.push(s("ein")); } m.push(s("hundert")); }
    else if h > 1 { m.push(s(U[h as usize])); m.push(s("hundert")); }
    if r > 0 { m.extend(below100(r, c, eins)); }
}
/// join morphemes: mode 0 one word; 1 break after tausend; 2 break after tausend and hundert; 3 every morpheme apart
fn join(m: Vec<String>, mode: usize) -> Vec<String> {
    let mut out: Vec<String> = vec![]; let mut cur = String::new();
    for w in m {
        cur.push_str(&w);
        let brk = match mode { 0 => false, 1 => w == "tausend", 2 => w == "tausend" || w == "hundert", _ => true };
        if brk { out.push(std::mem::take(&mut cur)); }
    }
    if !cur.is_empty() { out.push(cur); }
    out
}
pub fn cardinal(n: u64, c: &mut dyn Chooser) -> Vec<String> { cardinal_or_ordinal(n, c, None) }
fn cardinal_or_ordinal(n: u64, c: &mut dyn Chooser, ord: Option<&str>) -> Vec<String> {
    if n == 0 { return vec![s("null")]; }
    let g = groups(n);
    // 0 standard compounds; 1 break after tausend; 2 also break after hundert (never inside the multiplier of tausend); 3 all morphemes apart
    let style = c.pick(4);
    let mut out = vec![];
    for (i, sg, pl) in [(3usize, "milliarde", "milliarden"), (2, "million", "millionen")] {
        // "eine Million" is the dictionary form; the library documents `eine` as not a number word
        // (known finding de-eine-million), so the speller's choice 0 is the accepted "ein Million"
        if g[i] == 1 {
            // "ein Million" / "eine Million" / bare "Million" (implicit one: "der millionste Besucher")
            let bare = out.is_empty() && c.pick(6) == 5;
            if !bare { out.push(s(if ord.is_none() && c.pick(4) == 3 { "eine" } else { "ein" })); }
            out.push(s(sg));
        }
        else if g[i] > 1 { let mut m = vec![]; group(g[i], c, false, &mut m); out.extend(join(m, match style { 0 | 1 => 0, 2 => 2, _ => 3 })); out.push(s(pl)); }
    }
    let mut t = vec![];
    if g[1] == 1 { if c.pick(2) == 0 { t.push(s("ein")); } t.push(s("tausend")); }
    else if g[1] > 1 { group(g[1], c, false, &mut t); t.push(s("tausend")); }
    let mut u = vec![];
    if g[0] > 0 { group(g[0], c, true, &mut u); }
    if let Some(decl) = ord {
        let tgt = if u.is_empty() { &mut t } else { &mut u };
        if tgt.is_empty() { // exactly n * 10^6: "millionste"
            let l = out.pop().unwrap(); out.push(format!("{}ste{}", if l == "millionen" { "million" } else { &l }, decl));
        } else { let l = tgt.pop().unwrap(); tgt.push(format!("{}{}", ord_word(&l), decl)); }
    }
    match style {
        0 => { t.extend(u); out.extend(join(t, 0)); }
        1 => { out.extend(join(t, 0)); out.extend(join(u, 0)); }
        2 => { out.extend(join(t, 0)); let mut w = join(u, 2);
               // "einhundert und drei": optional conjunction after a separate hundert word
               if w.len() == 2 && c.pick(3) == 2 { w.insert(1, s("und")); }
               out.extend(w); }
        _ => { out.extend(join(t, 3)); out.extend(join(u, 3)); }
    }
    out
}

fn ord_word(w: &str) -> String {
    match w { "ein" | "eins" => s("erste"), "drei" => s("dritte"), "sieben" => s("siebte"), "acht" => s("achte"),
        _ if w.ends_with("zig") || w.ends_with("ßig") || w.ends_with("ssig") || w == "hundert" || w == "tausend" => format!("{}ste", w),
        _ => format!("{}te", w) }
}
pub fn ordinal(n: u64, c: &mut dyn Chooser) -> (Vec<String>, String) {
    let decl = ["", "r", "s", "n", "m"][c.pick(5)];
    (cardinal_or_ordinal(n, c, Some(decl)), s("."))
}
