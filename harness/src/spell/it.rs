use super::*;
const U: [&str; 20] = ["zero","uno","due","tre","quattro","cinque","sei","sette","otto","nove","dieci","undici","dodici","tredici","quattordici","quindici","sedici","diciassette","diciotto","diciannove"];
const T: [&str; 10] = ["","","venti","trenta","quaranta","cinquanta","sessanta","settanta","ottanta","novanta"];

/// one written word for 1..99 ; `final_pos`: last element of the whole word (accent on -tré)
pub fn below100(n: u32, c: &mut dyn Chooser, final_pos: bool) -> String {
    debug_assert!(n > 0 && n < 100);
    if n < 20 { return s(U[n as usize]); }
    let (t, u) = (n / 10, n % 10);
    let tw = T[t as usize];
    match u {
        0 => s(tw),
        1 => format!("{}{}", &tw[..tw.len() - 1], if c.pick(4) == 3 { "un" } else { "uno" }),
        8 => format!("{}otto", &tw[..tw.len() - 1]),
        3 => format!("{}{}", tw, if final_pos && c.pick(4) != 3 { "tré" } else { "tre" }),
        _ => format!("{}{}", tw, U[u as usize]),
    }
}
/// pieces of 1..999 (each piece a morpheme group that may be written attached or apart)
fn group(g: u32, c: &mut dyn Chooser, final_pos: bool) -> Vec<String> {
    let (h, r) = (g / 100, g % 100);
    let mut p = vec![];
    if h == 1 { p.push(s("cento")); } else if h > 1 { p.push(format!("{}cento", U[h as usize])); }
    if r > 0 { p.push(below100(r, c, final_pos)); }
    p
}
/// join hundred+rest: attached (with optional elision cento+ottanta/otto -> centottanta) or apart
/// "novanta cinque": tens and units apart (never with the elided uno/otto forms)
pub fn below100_split(n: u32, c: &mut dyn Chooser) -> Vec<String> {
    if n > 20 && n % 10 != 0 && n % 10 != 1 && n % 10 != 8 && c.pick(4) == 3 {
        // "venti tré": the accent of the compound is kept when speech-to-text splits it
        let u = if n % 10 == 3 && c.pick(2) == 1 { "tré" } else { U[(n % 10) as usize] };
        vec![s(T[(n / 10) as usize]), s(u)]
    } else if n == 3 && c.pick(8) == 7 {
        // the library publishes the accented form as a spelling of three on its own (split compounds)
        vec![s("tré")]
    } else { vec![below100(n, c, true)] }
}
fn join_group(p: Vec<String>, c: &mut dyn Chooser, split: bool) -> Vec<String> {
    if p.len() == 2 && !split {
        let (a, b) = (&p[0], &p[1]);
        if b.starts_with("ott") && c.pick(2) == 0 { return vec![format!("{}{}", &a[..a.len() - 1], b)]; }
        return vec![format!("{}{}", a, b)];
    }
    p
}
/// x in 1..10^6 -> words
fn below_million(x: u32, c: &mut dyn Chooser, out: &mut Vec<String>) {
    let (t, u) = (x / 1000, x % 1000);
    // 0: one word; 1: break after mila/mille; 2: also hundreds apart in the last group
    let style = c.pick(4).min(2);
    let mut words: Vec<String> = vec![];
    if t == 1 { words.push(s("mille")); }
    else if t > 1 { words.push(format!("{}mila", join_group(group(t, c, false), c, false).concat())); }
    if u > 0 {
        let w = join_group(group(u, c, true), c, style == 2);
        if style == 0 && !words.is_empty() { let head = words.pop().unwrap(); words.push(format!("{}{}", head, w.concat())); }
        else {
            // "tremila e seicento", "cento e uno": optional conjunction before the last separate word
            let mut w = w;
            if (!words.is_empty() || w.len() == 2) && c.pick(3) == 2 { let l = w.len() - 1; w.insert(l, s("e")); }
            words.extend(w);
        }
    }
    out.extend(words);
}
pub fn cardinal(n: u64, c: &mut dyn Chooser) -> Vec<String> {
    if n == 0 { return vec![s("zero")]; }
    if n < 100 { return below100_split(n as u32, c); }
    let g = groups(n);
    let mut out = vec![];
    for (i, (sg, pl)) in [(3usize, ("miliardo", "miliardi")), (2, ("milione", "milioni"))] {
        if g[i] == 1 { out.push(s("un")); out.push(s(sg)); }
        else if g[i] > 1 { let sp = c.pick(4) == 3; let mut w = join_group(group(g[i], c, false), c, sp); out.append(&mut w); out.push(s(pl)); }
    }
    let r = (n % 1_000_000) as u32;
    if r > 0 { below_million(r, c, &mut out); }
    out
}

const O10: [&str; 11] = ["","prim","second","terz","quart","quint","sest","settim","ottav","non","decim"];
/// ordinals are written as one word; n in 1..=10^6. Returns None for the shapes whose standard form is disputed (…dieci -> …decimo / …diecesimo)
pub fn ordinal(n: u64, c: &mut dyn Chooser) -> Option<(Vec<String>, String)> {
    let (end, marker) = [("o", "º"), ("a", "ª"), ("i", "º"), ("e", "ª")][c.pick(4)];
    if n <= 10 { if n == 2 && end == "i" { return None; } return Some((vec![format!("{}{}", O10[n as usize], end)], s(marker))); }
    if n % 100 == 10 { return None; }
    let stem = if n == 1_000_000 { s("milionesim") } else {
        let card = super::it::one_word(n as u32, c);
        if card.ends_with("mila") { format!("{}millesim", &card[..card.len() - 4]) }
        else if card.ends_with("mille") { format!("{}millesim", &card[..card.len() - 5]) }
        else if card.ends_with("tré") { format!("{}treesim", &card[..card.len() - 4]) }
        else if card.ends_with("tre") && n % 10 == 3 { format!("{}treesim", &card[..card.len() - 3]) }
        else if card.ends_with("sei") { format!("{}seiesim", &card[..card.len() - 3]) }
        else if card.ends_with("un") { format!("{}esim", card) }
        else { let mut ch: Vec<char> = card.chars().collect(); ch.pop(); format!("{}esim", ch.into_iter().collect::<String>()) }
    };
    Some((vec![format!("{}{}", stem, end)], s(marker)))
}
/// x in 1..10^6 as a single word
pub fn one_word(x: u32, c: &mut dyn Chooser) -> String {
    let (t, u) = (x / 1000, x % 1000);
    let mut w = String::new();
    if t == 1 { w.push_str("mille"); } else if t > 1 { w.push_str(&join_group(group(t, c, false), c, false).concat()); w.push_str("mila"); }
    if u > 0 { w.push_str(&join_group(group(u, c, true), c, false).concat()); }
    w
}
