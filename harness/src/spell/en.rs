use super::*;
const U: [&str; 20] = ["zero","one","two","three","four","five","six","seven","eight","nine","ten","eleven","twelve","thirteen","fourteen","fifteen","sixteen","seventeen","eighteen","nineteen"];
const T: [&str; 10] = ["","","twenty","thirty","forty","fifty","sixty","seventy","eighty","ninety"];

pub fn below100(n: u32, c: &mut dyn Chooser, out: &mut Vec<String>) {
    debug_assert!(n > 0 && n < 100);
    if n < 20 { out.push(s(U[n as usize])); return; }
    let t = if n / 10 == 4 && c.flag() { "fourty" } else { T[(n / 10) as usize] };
    let u = n % 10;
    if u == 0 { out.push(s(t)); }
    else if c.flag() { out.push(s(t)); out.push(s(U[u as usize])); }
    else { out.push(format!("{}-{}", t, U[u as usize])); }
}
/// g in 1..1000
fn group(g: u32, c: &mut dyn Chooser, out: &mut Vec<String>, bare_ok: bool) {
    let (h, r) = (g / 100, g % 100);
    if h > 0 {
        if !(h == 1 && bare_ok && c.flag()) { out.push(s(U[h as usize])); }
        out.push(s(if h > 1 && c.pick(4) == 3 { "hundreds" } else { "hundred" }));
        if r > 0 && c.flag() { out.push(s("and")); }
    }
    if r > 0 { below100(r, c, out); }
}
pub fn cardinal(n: u64, c: &mut dyn Chooser) -> Vec<String> {
    let mut out = vec![];
    if n == 0 { return vec![s(if c.pick(4) == 3 { "nought" } else { "zero" })]; }
    // "nineteen hundred seventy-three" style
    if (1100..10000).contains(&n) && (n / 100) % 10 != 0 && c.pick(4) == 3 {
        below100((n / 100) as u32, c, &mut out);
        out.push(s(if c.pick(4) == 3 { "hundreds" } else { "hundred" }));
        let r = (n % 100) as u32;
        if r > 0 { if c.flag() { out.push(s("and")); } below100(r, c, &mut out); }
        return out;
    }
    let g = groups(n);
    let names = ["", "thousand", "million", "billion"];
    let mut first = true;
    // rare variant: each group is hyphenated with its scale word into one token ("twenty-one-thousand five")
    let hyphen_groups = c.pick(8) == 7;
    for i in (0..4).rev() {
        if g[i] == 0 { continue; }
        let start = out.len();
        if i == 0 {
            // "and" before a final group < 100 when something precedes ("one thousand and five")
            if !first && g[0] < 100 && c.flag() { out.push(s("and")); }
            group(g[0], c, &mut out, first);
        } else {
            // bare scale word (implicit one) only when leading: "thousand five", "million two hundred"
            if g[i] == 1 && first && c.pick(4) == 3 { } else { group(g[i], c, &mut out, first); }
            out.push(if g[i] > 1 && c.pick(4) == 3 { format!("{}s", names[i]) } else { s(names[i]) });
            if hyphen_groups && out.len() - start >= 2 && !out[start..].iter().any(|w| w == "and") {
                let joined = out[start..].join("-");
                out.truncate(start);
                out.push(joined);
            }
        }
        first = false;
    }
    out
}

fn ord_word(w: &str) -> String {
    match w { "one" => s("first"), "two" => s("second"), "three" => s("third"), "five" => s("fifth"), "eight" => s("eighth"), "nine" => s("ninth"), "twelve" => s("twelfth"),
        _ if w.ends_with('y') => format!("{}ieth", &w[..w.len() - 1]),
        _ => format!("{}th", w) }
}
/// returns (words, marker)
pub fn ordinal(n: u64, c: &mut dyn Chooser) -> (Vec<String>, String) {
    // the inflection is always the first pick
    let plural = c.pick(5) == 4;
    let mut w = cardinal(n, c);
    let last = w.pop().unwrap();
    let last = if ["hundreds", "thousands", "millions", "billions"].contains(&last.as_str()) { last[..last.len() - 1].to_string() } else { last };
    let (head, tail) = match last.rfind('-') { Some(i) => (last[..=i].to_string(), last[i + 1..].to_string()), None => (String::new(), last.clone()) };
    let tail = if ["hundreds", "thousands", "millions", "billions"].contains(&tail.as_str()) { tail[..tail.len() - 1].to_string() } else { tail };
    let mut o = ord_word(&tail);
    let mut marker = if o == "first" { s("st") } else if o == "second" { s("nd") } else if o == "third" { s("rd") } else { s("th") };
    if (marker == "th" || marker == "rd") && plural { o.push('s'); marker.push('s'); }
    w.push(format!("{}{}", head, o));
    (w, marker)
}
