use super::*;
const U: [&str; 30] = ["cero","uno","dos","tres","cuatro","cinco","seis","siete","ocho","nueve","diez","once","doce","trece","catorce","quince",
  "dieciséis","diecisiete","dieciocho","diecinueve","veinte","veintiuno","veintidós","veintitrés","veinticuatro","veinticinco","veintiséis","veintisiete","veintiocho","veintinueve"];
const T: [&str; 10] = ["","","","treinta","cuarenta","cincuenta","sesenta","setenta","ochenta","noventa"];
const H: [&str; 10] = ["","ciento","doscientos","trescientos","cuatrocientos","quinientos","seiscientos","setecientos","ochocientos","novecientos"];

#[allow(dead_code)]
fn unaccent(w: &str) -> String { w.replace('ó', "o").replace('é', "e").replace('ú', "u") }
/// `pre`: the number stands before mil/millones (apocope of uno)
pub fn below100(n: u32, c: &mut dyn Chooser, pre: bool, fem: bool, out: &mut Vec<String>) {
    debug_assert!(n > 0 && n < 100);
    let one = |c: &mut dyn Chooser| -> &'static str { if fem { "una" } else if pre { "un" } else if c.pick(4) == 3 { "un" } else { "uno" } };
    if n == 1 { out.push(s(one(c))); return; }
    if n == 21 {
        let w = if fem { s("veintiuna") } else if pre || c.pick(4) == 3 { s("veintiún") } else { s("veintiuno") };
        out.push(w); return;
    }
    if n < 30 { out.push(s(U[n as usize])); return; }
    out.push(s(T[(n / 10) as usize]));
    let u = n % 10;
    if u > 0 { if c.pick(8) != 7 { out.push(s("y")); } if u == 1 { out.push(s(one(c))); } else { out.push(s(U[u as usize])); } }
}
fn group(g: u32, c: &mut dyn Chooser, pre: bool, fem: bool, out: &mut Vec<String>) {
    let (h, r) = (g / 100, g % 100);
    if h == 1 { out.push(s(if r == 0 { "cien" } else { "ciento" })); }
    else if h > 1 { let w = H[h as usize]; out.push(if fem { format!("{}as", &w[..w.len() - 2]) } else { s(w) }); }
    if r > 0 { below100(r, c, pre, fem, out); }
}
/// x in 1..10^6
fn below_million(x: u32, c: &mut dyn Chooser, pre: bool, fem: bool, out: &mut Vec<String>) {
    let (t, u) = (x / 1000, x % 1000);
    if t == 1 { out.push(s("mil")); } else if t > 1 { group(t, c, true, fem, out); out.push(s("mil")); }
    if u > 0 { group(u, c, pre, fem, out); }
}
pub fn cardinal(n: u64, c: &mut dyn Chooser) -> Vec<String> {
    if n == 0 { return vec![s("cero")]; }
    let fem = c.pick(4) == 3;
    let mut out = vec![];
    let (m, r) = ((n / 1_000_000) as u32, (n % 1_000_000) as u32);
    if m == 1 { out.push(s("un")); out.push(s(if c.pick(4) == 3 { "millon" } else { "millón" })); }
    else if m > 1 { below_million(m, c, true, false, &mut out); out.push(s("millones")); }
    if r > 0 { below_million(r, c, false, fem, &mut out); }
    out
}

const OU: [&str; 10] = ["","primer","segund","tercer","cuart","quint","sext","séptim","octav","noven"];
const OT: [&str; 10] = ["","décim","vigésim","trigésim","cuadragésim","quincuagésim","sexagésim","septuagésim","octogésim","nonagésim"];
const OH: [&str; 10] = ["","centésim","ducentésim","tricentésim","cuadringentésim","quingentésim","sexcentésim","septingentésim","octingentésim","noningentésim"];
/// n in 1..2000. None: shapes the library documents as deliberately not converted (lone masculine "segundo(s)")
pub fn ordinal(n: u64, c: &mut dyn Chooser) -> Option<(Vec<String>, String)> {
    let n = n as u32;
    let (end, marker) = [("o", "º"), ("a", "ª"), ("os", "ᵒˢ"), ("as", "ᵃˢ")][c.pick(4)];
    if n == 2 && end.starts_with('o') { return None; }
    let mut w: Vec<String> = vec![];
    if n >= 1000 { w.push(format!("milésim{}", end)); }
    let (h, r) = (n % 1000 / 100, n % 100);
    if h > 0 { w.push(format!("{}{}", OH[h as usize], end)); }
    let (t, u) = (r / 10, r % 10);
    if t == 1 && u > 0 {
        match c.pick(3) {
            0 => { w.push(format!("décim{}", end)); w.push(format!("{}{}", OU[u as usize], end)); }
            1 if u <= 2 => w.push(format!("{}{}", ["", "undécim", "duodécim"][u as usize], end)),
            _ => w.push(format!("decimo{}{}", if u == 8 { "ctav" } else { OU[u as usize] }, end)),
        }
    } else {
        if t > 0 { w.push(format!("{}{}", OT[t as usize], end)); }
        if u > 0 { w.push(format!("{}{}", OU[u as usize], end)); }
    }
    Some((w, s(marker)))
}
