//! word pools per language for sentence generation
use super::*;
use crate::choose::{Canon, Rng};
use std::collections::BTreeSet;

pub struct Vocab { pub classes: Vec<Vec<String>>, pub ord_class: usize, pub zero_class: usize, pub zeros: Vec<&'static str>, pub number_words: Vec<String>, pub linking: Vec<&'static str>, pub fillers: Vec<&'static str>, pub conj: &'static str, pub sep: &'static str, pub conj_alts: Vec<&'static str>, pub common: Vec<&'static str>, pub srcdict: Vec<&'static str>, pub phrases: Vec<Vec<&'static str>> }

pub fn linking(lang: &str) -> Vec<&'static str> {
    match lang {
        "de" => vec!["aber","ah","äh","ähm","also","gut","auch","denn","doch","dort","eben","eh","halt","ja","mal","sehen","naja","nun","ok","schon","so","genau","und","noch"],
        "en" => vec!["and","ha","ah","hu","hum","minus","more","ok","plus","so","that's","then","uh","well","yeah","yes","is"],
        "es" => vec!["pues","y","digo","o","sea","entonces","así","que","bueno","es","eso","en","fin","luego","mas","menos","pero","vale","eh","ah","oye","ya","hum","ok","sí","no","con","son"],
        "fr" => vec!["alors","bien","c'est","encore","ensuite","et","euh","heu","ha","ah","hu","hum","moins","ok","oui","plus","puis","voilà"],
        "it" => vec!["e","ehm","più","poi","ancora","meno","è","ben"],
        "nl" => vec!["ja","dus","plus","uh","dan","min","dat","is"],
        "pt" => vec!["eh","então","bem","isso","e","uh","ha","ah","hu","um","menos","ok","sim","mais","digo","ou","seja","aquele","é","aquilo","em","fim","mas","ei","agora","hum","não","com","são","novamente"],
        _ => panic!(),
    }
}
pub fn fillers(lang: &str) -> Vec<&'static str> {
    match lang {
        "de" => vec!["heute","beste","Kühe","Haus","der","eine","Liste","grün","Tisch","läuft","wir","Straße","4x4","Ⅷ","ǅ","7h30"],
        "en" => vec!["month","with","both","cows","house","the","a","list","green","table","runs","we","street","o'clock","point","4x4","Ⅷ","ǅ","2nd","3D","five-star","one-way","nine-to-five"],
        "es" => vec!["último","próxima","vacas","casa","el","la","lista","verde","mesa","corre","nosotros","calle","4x4","Ⅷ","ǅ","3º"],
        "fr" => vec!["dernier","janvier","vaches","maison","le","du","l'","logement","numéro","vert","table","court","nous","rue","4x4","Ⅷ","ǅ","2ème","7h30","deux-pièces","trois-mâts"],
        "it" => vec!["medesimo","ultimo","mucche","casa","il","la","lista","verde","tavolo","corre","noi","strada","4x4","Ⅷ","ǅ","3D"],
        "nl" => vec!["beste","aarde","koeien","huis","de","het","lijst","groen","tafel","loopt","wij","straat","4x4","Ⅷ","ǅ","2e"],
        "pt" => vec!["último","próxima","vacas","casa","o","a","lista","verde","mesa","corre","nós","rua","4x4","Ⅷ","ǅ","meia","outra","vez","aí","está","tarde"],
        _ => panic!(),
    }
}

/// Everyday words of each language: pronouns, articles, prepositions, frequent verbs / nouns / adverbs, and
/// the words that typically stand next to numbers (units, quantities, approximators). They are ordinary,
/// non-number, non-linking words for every oracle; `common_words` is filtered at start-up against the
/// library's own answers so that a word the library does treat as a number or linking word is dropped.
pub fn common_words_raw(lang: &str) -> Vec<&'static str> {
    match lang {
        "en" => vec!["i","you","he","she","it","we","they","me","him","her","my","your","his","our","their","this","these","those","here","there","where","when","why","how","what","who","which","not","very","just","also","only","even","still","too","much","many","few","some","any","all","each","every","other","such","same","than","now","today","tomorrow","always","never","often","soon","later","again","already","time","day","week","year","people","man","woman","child","world","life","hand","part","place","work","thing","number","page","room","floor","about","around","nearly","almost","exactly","over","under","between","after","before","into","from","without","for","of","in","on","at","by","to","as","but","or","if","because","while","do","did","have","had","be","are","was","were","can","could","will","would","may","must","go","came","see","get","make","take","know","think","say","good","new","old","big","small","long","double","triple","half","pair","dozen","percent","clock","times","minutes","hours","seconds","euros","dollars","kilos","miles","days","years","degrees"],
        "fr" => vec!["je","tu","il","elle","nous","vous","ils","elles","me","te","se","mon","ton","son","notre","votre","leur","ce","cette","ces","ici","là","où","quand","pourquoi","comment","quoi","qui","que","ne","pas","très","aussi","seulement","même","toujours","jamais","souvent","bientôt","déjà","trop","beaucoup","peu","quelques","tout","tous","chaque","autre","tel","maintenant","aujourd'hui","demain","hier","temps","jour","semaine","année","gens","homme","femme","enfant","monde","vie","main","partie","place","travail","chose","nombre","page","chambre","étage","environ","presque","exactement","sur","sous","entre","après","avant","dans","de","sans","pour","à","en","par","comme","mais","ou","si","parce","pendant","faire","avoir","être","sont","était","peut","va","vient","voir","prendre","savoir","dire","bon","nouveau","vieux","grand","petit","long","double","triple","demi","paire","douzaine","pourcent","heure","heures","minutes","secondes","euros","francs","kilos","mètres","jours","ans","degrés","fois"],
        "de" => vec!["ich","du","er","sie","es","wir","ihr","mich","dich","sich","mein","dein","sein","unser","euer","dieser","diese","dieses","hier","da","wo","wann","warum","wie","was","wer","welche","nicht","sehr","nur","sogar","immer","nie","oft","bald","später","wieder","bereits","zu","viel","viele","wenig","einige","alle","jeder","andere","solche","jetzt","heute","morgen","gestern","Zeit","Tag","Woche","Jahr","Leute","Mann","Frau","Kind","Welt","Leben","Hand","Teil","Platz","Arbeit","Ding","Nummer","Seite","Zimmer","Stock","etwa","ungefähr","fast","genau","über","unter","zwischen","nach","vor","in","von","ohne","für","mit","an","auf","bei","als","oder","wenn","weil","während","außer","machen","haben","hat","hatte","ist","sind","war","kann","wird","geht","kommt","sehen","nehmen","wissen","sagen","neu","alt","groß","klein","lang","doppelt","dreifach","halb","Paar","Dutzend","Prozent","Uhr","Minuten","Stunden","Sekunden","Euro","Kilo","Meter","Tage","Jahre","Grad","Mal","Acht"],
        "es" => vec!["yo","tú","él","ella","nosotros","vosotros","ellos","me","te","se","mi","tu","su","nuestro","este","esta","estos","aquí","allí","donde","cuando","porque","como","qué","quién","cual","muy","también","solo","incluso","siempre","nunca","pronto","después","otra","demasiado","mucho","muchos","poco","algunos","todo","todos","cada","otro","tal","ahora","hoy","mañana","ayer","tiempo","día","semana","año","gente","hombre","mujer","niño","mundo","vida","mano","parte","lugar","trabajo","cosa","número","página","habitación","piso","casi","exactamente","sobre","bajo","entre","antes","de","sin","para","por","a","pero","si","mientras","hacer","tener","tiene","ser","está","era","puede","va","viene","ver","tomar","saber","decir","nuevo","viejo","grande","pequeño","largo","doble","triple","medio","par","docena","ciento","hora","horas","minutos","euros","pesos","kilos","metros","días","años","grados","veces","último","próximo"],
        "it" => vec!["io","tu","lui","lei","noi","voi","loro","mi","ti","si","ci","vi","mio","tuo","suo","nostro","questo","questa","questi","qui","lì","dove","quando","perché","come","cosa","chi","quale","non","molto","anche","solo","persino","sempre","mai","spesso","presto","dopo","già","troppo","molti","poco","alcuni","tutto","tutti","ogni","altro","tale","ora","oggi","domani","ieri","tempo","giorno","settimana","anno","gente","uomo","donna","bambino","mondo","vita","mano","parte","posto","lavoro","numero","pagina","stanza","piano","circa","quasi","esattamente","sopra","sotto","tra","prima","in","di","da","senza","per","a","con","su","ma","o","se","mentre","fare","avere","ha","essere","sono","era","può","va","viene","vedere","prendere","sapere","dire","buono","nuovo","vecchio","grande","piccolo","lungo","doppio","triplo","mezzo","paio","dozzina","percento","ore","minuti","secondi","euro","lire","chili","metri","giorni","anni","gradi","volte"],
        "nl" => vec!["ik","jij","hij","zij","wij","jullie","mij","jou","hem","haar","mijn","jouw","zijn","onze","hun","deze","dit","die","hier","daar","waar","wanneer","waarom","hoe","wat","wie","welke","niet","zeer","ook","alleen","zelfs","altijd","nooit","vaak","straks","later","weer","al","te","veel","weinig","enkele","alle","elke","andere","zulke","nu","vandaag","morgen","gisteren","tijd","dag","week","jaar","mensen","man","vrouw","kind","wereld","leven","hand","deel","plaats","werk","ding","nummer","pagina","kamer","verdieping","ongeveer","bijna","precies","over","onder","tussen","na","voor","in","van","zonder","met","aan","op","bij","als","maar","of","omdat","terwijl","maken","hebben","heeft","had","zijn","was","kan","zal","gaat","komt","zien","nemen","weten","zeggen","goed","nieuw","oud","groot","klein","lang","dubbel","driedubbel","half","paar","dozijn","procent","uur","minuten","seconden","euro","kilo","meter","dagen","graden","keer"],
        "pt" => vec!["eu","tu","ele","ela","nós","vós","eles","me","te","se","meu","teu","seu","nosso","este","esta","estes","aqui","ali","onde","quando","porque","como","quê","quem","qual","muito","também","só","até","sempre","nunca","logo","depois","outra","vez","já","demasiado","muitos","pouco","alguns","tudo","todos","cada","outro","tal","hoje","amanhã","ontem","tempo","dia","semana","ano","gente","homem","mulher","criança","mundo","vida","mão","parte","lugar","trabalho","coisa","número","página","quarto","andar","cerca","quase","exatamente","sobre","sob","entre","antes","de","sem","para","por","a","se","enquanto","fazer","ter","tem","ser","está","era","pode","vai","vem","ver","tomar","saber","dizer","bom","novo","velho","grande","pequeno","longo","dobro","triplo","meio","meia","par","dúzia","cento","hora","horas","minutos","euros","reais","quilos","metros","dias","anos","graus","vezes","último","próximo"],
        _ => vec![],
    }
}
pub fn vocab(lang: &str) -> Vocab {
    // balanced classes: units, teens, tens, compounds(21..99), scales-ish (>=100 pieces), ordinals, zero
    let mut classes: Vec<BTreeSet<String>> = vec![BTreeSet::new(); 8];
    {
        let mut r = Rng(7);
        let mut put = |k: usize, w: Vec<String>| for x in w { classes[k].insert(x); };
        for n in 1..10 { put(0, cardinal(lang, n, &mut Canon)); put(0, cardinal(lang, n, &mut r)); }
        for n in 10..20 { put(1, cardinal(lang, n, &mut Canon)); }
        for n in (20..100).step_by(10) { put(2, cardinal(lang, n, &mut Canon)); put(2, cardinal(lang, n, &mut r)); }
        for n in 21..100 { if n % 10 != 0 { let w = cardinal(lang, n, &mut r); if w.len() == 1 { put(3, w); } } }
        for n in [100u64, 1000, 1_000_000, 1_000_000_000, 200, 2000, 2_000_000, 3_000_000_000, 1100, 100_000] { for _ in 0..3 { let w = cardinal(lang, n, &mut r); put(4, w.into_iter().flat_map(|x| x.split('-').map(|y| y.to_string()).collect::<Vec<_>>()).collect()); } }
        for n in (1..=31).chain([40, 50, 60, 70, 80, 90, 100, 1000]) { for _ in 0..2 { if let Some((w, _)) = ordinal(lang, n, &mut r) { put(5, vec![w.last().unwrap().clone()]); } } }
        // every spelling variant of the small numbers (so that rare accepted forms such as `fourty` /
        // `fourtieth`, `septante`, `veintiún`, `één` are always in the pools, not only when two random
        // draws happen to produce them)
        for n in 0..100u64 {
            for v in all_variants(lang, n) {
                let ws: Vec<String> = v.split(' ').map(|x| x.to_string()).collect();
                let k = if n < 10 { 0 } else if n < 20 { 1 } else if n % 10 == 0 { 2 } else { 3 };
                if ws.len() == 1 { put(k, ws); } else if k == 3 { for w in ws { if w.contains('-') { put(3, vec![w]); } } }
            }
            let mut e = crate::choose::Enumerate::new();
            let mut guard = 0;
            loop {
                if let Some((w, _)) = ordinal(lang, n.max(1), &mut e) { put(5, vec![w.last().unwrap().clone()]); }
                guard += 1;
                if !e.advance() || guard > 400 { break; }
            }
        }
        put(6, vec![zero_word(lang).to_string()]); if lang == "en" { put(6, vec![s("o"), s("nought")]); }
        // published number words the ordinal spellers never emit on their own (time-unit homographs)
        if lang == "es" || lang == "pt" { put(5, vec![s("segundo"), s("segundos")]); }
        // class 7: the Spanish '-avo' fraction words (rendered 1/n); other languages repeat their ordinals here
        if lang == "es" {
            for w in ["onceavo", "doceavo", "treceavo", "catorceavo", "quinceavo", "dieciochoavo", "veinteavo", "veintavo", "veinticincoavo", "treintavo", "cuarentavo", "cincuentavo", "sesentavo", "setentavo", "ochentavo", "noventavo", "centavo"] {
                put(7, vec![s(w), format!("{}s", w)]);
            }
        } else {
            for n in [2u64, 3, 4, 10, 12, 20, 100] { if let Some((w, _)) = ordinal(lang, n, &mut r) { put(7, vec![w.last().unwrap().clone()]); } }
        }
        // scale words beyond the spellers' range (10^12 and up) that the languages publish: they make
        // numerals of 16..25 digits reachable for the well-formedness / totality / agreement properties
        let extra: &[&str] = match lang { "de" => &["billion", "billionste"], "it" => &["bilione", "bilioni", "bilionesimo"], "nl" => &["biljoen", "biljoenste"], "pt" => &["bilião", "biliões"], _ => &[] };
        put(4, extra.iter().map(|x| s(x)).collect());
    }
    let mut classes: Vec<Vec<String>> = classes.into_iter().map(|c| c.into_iter().collect::<Vec<String>>()).collect();
    // fixed class indices; a class that is empty in this language (pt has no one-word compounds) repeats the teens
    for k in 0..classes.len() { if classes[k].is_empty() { classes[k] = classes[1].clone(); } }
    let zeros: Vec<&'static str> = if lang == "en" { vec!["zero", "o", "nought"] } else { vec![zero_word(lang)] };
    let mut set: BTreeSet<String> = BTreeSet::new();
    let mut r = Rng(42);
    let mut add = |w: Vec<String>| for x in w { set.insert(x.clone()); for p in x.split('-') { set.insert(p.to_string()); } };
    for n in (0..=120).chain([200, 300, 500, 700, 900, 1000, 1100, 2000, 21000, 100_000, 1_000_000, 2_000_000, 1_000_000_000, 3_000_000_000]) {
        add(cardinal(lang, n, &mut Canon)); for _ in 0..4 { add(cardinal(lang, n, &mut r)); }
    }
    for n in (1..=31).chain([40, 50, 60, 70, 80, 90, 100, 101, 200, 1000]) {
        if let Some((w, _)) = ordinal(lang, n, &mut Canon) { add(w); }
        for _ in 0..3 { if let Some((w, _)) = ordinal(lang, n, &mut r) { add(w); } }
    }
    set.insert(conjunction(lang).to_string()); set.insert(decimal_sep(lang).to_string()); set.insert(zero_word(lang).to_string());
    if lang == "en" { set.insert("o".into()); }
    Vocab { classes, ord_class: 5, zero_class: 6, zeros, number_words: set.into_iter().collect(), linking: linking(lang), fillers: fillers(lang), conj: conjunction(lang), sep: decimal_sep(lang), common: vec![], srcdict: vec![], phrases: vec![], conj_alts: if lang == "nl" { vec!["en", "ën"] } else { vec![conjunction(lang)] } }
}
pub const PUNCT: [&str; 16] = [",", ".", ";", ":", "!", "?", "-", "—", "'", "(", ")", "…", "...", "/", "\u{200b}", "\u{2060}"];
pub const SPACES: [&str; 8] = [" ", " ", " ", "  ", "\t", "\n", "\u{a0}", "\u{2009}"];
