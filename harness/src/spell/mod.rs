use crate::choose::Chooser;
pub mod vocab; pub mod en; pub mod fr; pub mod es; pub mod pt; pub mod it; pub mod de; pub mod nl;

pub const LANGS: [&str; 7] = ["de", "en", "es", "fr", "it", "nl", "pt"];

/// groups of three digits, least significant first: [units, thousands, millions, billions]
pub fn groups(n: u64) -> [u32; 4] {
    [(n % 1000) as u32, (n / 1000 % 1000) as u32, (n / 1_000_000 % 1000) as u32, (n / 1_000_000_000 % 1000) as u32]
}
pub fn cardinal(lang: &str, n: u64, c: &mut dyn Chooser) -> Vec<String> {
    match lang { "en" => en::cardinal(n, c), "fr" => fr::cardinal(n, c), "es" => es::cardinal(n, c), "pt" => pt::cardinal(n, c),
        "it" => it::cardinal(n, c), "de" => de::cardinal(n, c), "nl" => nl::cardinal(n, c), _ => panic!() }
}
pub fn s(x: &str) -> String { x.to_string() }

/// None = shape excluded by construction (documented in the speller)
pub fn ordinal(lang: &str, n: u64, c: &mut dyn Chooser) -> Option<(Vec<String>, String)> {
    match lang { "en" => Some(en::ordinal(n, c)), "fr" => Some(fr::ordinal(n, c)), "es" => es::ordinal(n, c), "pt" => pt::ordinal(n, c),
        "it" => it::ordinal(n, c), "de" => Some(de::ordinal(n, c)), "nl" => Some(nl::ordinal(n, c)), _ => panic!() }
}
pub fn ordinal_max(lang: &str) -> u64 { if lang == "es" || lang == "pt" { 1999 } else { 1_000_000 } }

pub fn decimal_sep(lang: &str) -> &'static str { match lang { "en" => "point", "fr" => "virgule", "es" => "coma", "pt" => "vírgula", "it" => "virgola", "de" | "nl" => "komma", _ => panic!() } }
pub fn decimal_mark(lang: &str) -> char { if lang == "en" { '.' } else { ',' } }
pub fn zero_word(lang: &str) -> &'static str { match lang { "en" => "zero", "fr" => "zéro", "es" => "cero", "pt" | "it" => "zero", "de" => "null", "nl" => "nul", _ => panic!() } }
/// spelling of the fractional digit string `d` (ascii digits, non-empty)
pub fn fraction(lang: &str, d: &str, c: &mut dyn Chooser) -> Vec<String> {
    let mut out = vec![];
    match lang {
        "en" | "de" => for ch in d.chars() {
            let k = ch.to_digit(10).unwrap() as u64;
            if k == 0 { out.push(s(if lang == "en" { ["zero", "o", "nought"][c.pick(3)] } else { "null" })); }
            else if lang == "de" && k == 1 { out.push(s("eins")); }
            else { out.extend(cardinal(lang, k, &mut crate::choose::Canon)); }
        },
        _ => {
            let k = d.chars().take_while(|&ch| ch == '0').count();
            for _ in 0..k { out.push(s(zero_word(lang))); }
            if k < d.len() { out.extend(cardinal(lang, d[k..].parse().unwrap(), c)); }
        }
    }
    out
}

pub fn conjunction(lang: &str) -> &'static str { match lang { "en" => "and", "fr" => "et", "es" => "y", "pt" | "it" => "e", "de" => "und", "nl" => "en", _ => panic!() } }
/// every spelling variant of n (as space-joined strings)
pub fn all_variants(lang: &str, n: u64) -> std::collections::BTreeSet<String> {
    let mut e = crate::choose::Enumerate::new();
    let mut set = std::collections::BTreeSet::new();
    loop { set.insert(cardinal(lang, n, &mut e).join(" ")); if !e.advance() { break; } }
    set
}

/// Cardinal spelling for the properties other than C01: the one spelling recorded as a known
/// finding under C01 (de `eine` before Million/Milliarde) is replaced by the accepted `ein`,
/// so that the same defect is not re-reported under every property that spells integers.
pub fn cardinal_nk(lang: &str, n: u64, c: &mut dyn Chooser) -> Vec<String> {
    let mut w = cardinal(lang, n, c);
    if lang == "de" {
        for i in 0..w.len().saturating_sub(1) {
            if w[i] == "eine" && (w[i + 1].starts_with("million") || w[i + 1].starts_with("milliarde")) {
                w[i] = s("ein");
            }
        }
    }
    w
}
