use super::*;
const U: [&str; 17] = ["zéro","un","deux","trois","quatre","cinq","six","sept","huit","neuf","dix","onze","douze","treize","quatorze","quinze","seize"];
const T: [&str; 10] = ["","dix","vingt","trente","quarante","cinquante","soixante","septante","huitante","nonante"];

/// parts of a number below 100 (morphemes, to be joined by '-' or ' ').
/// `plural80`: write "quatre-vingts" for exactly 80.
pub fn below100(n: u32, c: &mut dyn Chooser, plural80: bool) -> Vec<String> {
    debug_assert!(n > 0 && n < 100);
    let mut p: Vec<String> = vec![];
    let small = |k: u32, p: &mut Vec<String>| { // 1..19
        if k <= 16 { p.push(s(U[k as usize])); } else { p.push(s("dix")); p.push(s(U[(k - 10) as usize])); }
    };
    if n < 20 { small(n, &mut p); return p; }
    let (t, u) = (n / 10, n % 10);
    match t {
        2..=6 => { p.push(s(T[t as usize])); if u == 1 { p.push(s("et")); p.push(s("un")); } else if u > 0 { p.push(s(U[u as usize])); } }
        7 => if c.pick(4) == 3 { p.push(s("septante")); if u == 1 { p.push(s("et")); p.push(s("un")); } else if u > 0 { p.push(s(U[u as usize])); } }
             else { p.push(s("soixante")); if u == 1 && c.pick(4) != 3 { p.push(s("et")); } small(10 + u, &mut p); },
        8 => match c.pick(6) { 4 => { p.push(s("huitante")); if u == 1 { p.push(s("et")); p.push(s("un")); } else if u > 0 { p.push(s(U[u as usize])); } }
                               5 => { p.push(s("octante")); if u == 1 { p.push(s("et")); p.push(s("un")); } else if u > 0 { p.push(s(U[u as usize])); } }
                               _ => { p.push(s("quatre")); p.push(s(if u == 0 && plural80 && c.pick(4) != 3 { "vingts" } else { "vingt" })); if u > 0 { p.push(s(U[u as usize])); } } },
        9 => if c.pick(4) == 3 { p.push(s("nonante")); if u == 1 { p.push(s("et")); p.push(s("un")); } else if u > 0 { p.push(s(U[u as usize])); } }
             else { p.push(s("quatre")); p.push(s("vingt")); small(10 + u, &mut p); },
        _ => unreachable!(),
    }
    p
}
/// style: 0 traditional (hyphens inside <100 compounds, "et" spaced), 1 spaces only, 2 all hyphens (1990), 3 traditional with hyphenated "et"
fn emit100(parts: Vec<String>, style: usize, out: &mut Vec<String>) {
    match style {
        1 | 2 => out.extend(parts),
        0 => { // hyphenate, but "x et y" stays spaced: "vingt et un", "soixante et onze"
            if let Some(i) = parts.iter().position(|w| w == "et") {
                out.push(parts[..i].join("-")); out.push(s("et")); out.push(parts[i + 1..].join("-"));
            } else { out.push(parts.join("-")); }
        }
        _ => out.push(parts.join("-")),
    }
}
/// g in 1..1000 ; `final_pos`: nothing follows inside this numeral except a noun scale (million/milliard) => plural marks allowed
fn group(g: u32, c: &mut dyn Chooser, style: usize, plural_ok: bool, out: &mut Vec<String>) {
    let (h, r) = (g / 100, g % 100);
    if h == 1 { out.push(s("cent")); }
    else if h > 1 { out.push(s(U[h as usize])); out.push(s(if r == 0 && plural_ok { "cents" } else { "cent" })); }
    if r > 0 { let p = below100(r, c, plural_ok); emit100(p, style, out); }
}
pub fn cardinal(n: u64, c: &mut dyn Chooser) -> Vec<String> {
    if n == 0 { return vec![s("zéro")]; }
    let style = c.pick(4);
    let mut out = vec![];
    let g = groups(n);
    // onze cent .. dix-neuf cent
    if (1100..2000).contains(&n) && c.pick(4) == 3 {
        let p = below100((n / 100) as u32, c, false); emit100(p, style, &mut out);
        let r = (n % 100) as u32;
        out.push(s(if r == 0 { "cents" } else { "cent" }));
        if r > 0 { let p = below100(r, c, true); emit100(p, style, &mut out); }
    } else {
        if g[3] > 0 { group(g[3], c, style, true, &mut out); out.push(s(if g[3] > 1 { "milliards" } else { "milliard" })); }
        if g[2] > 0 { group(g[2], c, style, true, &mut out); out.push(s(if g[2] > 1 { "millions" } else { "million" })); }
        if g[1] > 0 {
            if g[1] > 1 { group(g[1], c, style, false, &mut out); }
            out.push(s(if g[1] == 1 && g[2] == 0 && g[3] == 0 && g[0] > 0 && c.pick(4) == 3 { "mil" } else { "mille" }));
        }
        if g[0] > 0 { group(g[0], c, style, true, &mut out); }
    }
    if style == 2 { vec![out.join("-")] } else { out }
}

fn ord_word(w: &str) -> String {
    match w { "un" => s("unième"), "quatre" => s("quatrième"), "cinq" => s("cinquième"), "neuf" => s("neuvième"),
        "onze" => s("onzième"), "douze" => s("douzième"), "treize" => s("treizième"), "quatorze" => s("quatorzième"), "quinze" => s("quinzième"), "seize" => s("seizième"),
        "trente" | "quarante" | "cinquante" | "soixante" | "septante" | "huitante" | "octante" | "nonante" | "mille" => format!("{}ième", &w[..w.len() - 1]),
        "vingts" | "cents" | "millions" | "milliards" => format!("{}ième", &w[..w.len() - 1]),
        _ => format!("{}ième", w) }
}
pub fn ordinal(n: u64, c: &mut dyn Chooser) -> (Vec<String>, String) {
    let plural = c.pick(5) == 4;
    if n == 1 {
        let (w, m) = if c.flag() { ("première", "ère") } else { ("premier", "er") };
        return if plural { (vec![format!("{}s", w)], format!("{}s", m)) } else { (vec![s(w)], s(m)) };
    }
    let mut w = cardinal(n, c);
    let last = w.pop().unwrap();
    let last = if last == "mil" { s("mille") } else { last };
    let (head, tail) = match last.rfind('-') { Some(i) => (last[..=i].to_string(), last[i + 1..].to_string()), None => (String::new(), last.clone()) };
    let mut o = ord_word(&tail);
    if plural { o.push('s'); }
    w.push(format!("{}{}", head, o));
    (w, s(if plural { "èmes" } else { "ème" }))
}
