//! Sharded proptest runner, enumerations, replay files, known findings, evidence.
//!
//! A run is a pure function of (tree, VERIF_SEED, tier): every random choice comes from
//! proptest runners seeded with `RngSeed::Fixed(f(seed, property, shard))`.
use proptest::strategy::{BoxedStrategy, Strategy};
use proptest::test_runner::{Config, RngSeed, TestCaseError, TestError, TestRunner};
use serde::{de::DeserializeOwned, Serialize};
use serde_json::{json, Value};
use std::cell::RefCell;
use std::collections::{BTreeMap, BTreeSet, HashSet};
use std::hash::{Hash, Hasher};
use std::path::{Path, PathBuf};
use std::sync::atomic::{AtomicBool, Ordering};
use std::sync::Mutex;
use std::time::Instant;

#[derive(Clone, Copy, PartialEq, Eq, Debug)]
pub enum Tier {
    Quick,
    Thorough,
}
impl Tier {
    pub fn name(self) -> &'static str {
        match self {
            Tier::Quick => "quick",
            Tier::Thorough => "thorough",
        }
    }
    pub fn pick<T>(self, q: T, t: T) -> T {
        match self {
            Tier::Quick => q,
            Tier::Thorough => t,
        }
    }
}

pub fn verif_dir() -> PathBuf {
    std::env::var("VERIF_DIR").map(PathBuf::from).unwrap_or_else(|_| PathBuf::from("/verif"))
}

/// FNV-1a, stable across runs and platforms (std's DefaultHasher is not guaranteed stable).
pub struct Fnv(pub u64);
impl Default for Fnv {
    fn default() -> Self {
        Fnv(0xcbf29ce484222325)
    }
}
impl Hasher for Fnv {
    fn finish(&self) -> u64 {
        self.0
    }
    fn write(&mut self, bytes: &[u8]) {
        for b in bytes {
            self.0 ^= *b as u64;
            self.0 = self.0.wrapping_mul(0x100000001b3);
        }
    }
}
pub fn hash_of<H: Hash + ?Sized>(h: &H) -> u64 {
    let mut f = Fnv::default();
    h.hash(&mut f);
    f.finish()
}

/// What a check observes about the cases it ran: counts, classification, samples.
pub struct Obs {
    pub active: bool,
    pub evaluations: u64,
    pub labels: BTreeMap<String, u64>,
    pub nontrivial: HashSet<u64>,
    pub samples: Vec<Value>,
    pub excluded: BTreeMap<String, u64>,
    sample_calls: u64,
}
impl Obs {
    pub fn new() -> Self {
        Obs {
            active: true,
            evaluations: 0,
            labels: BTreeMap::new(),
            nontrivial: HashSet::new(),
            samples: vec![],
            excluded: BTreeMap::new(),
            sample_calls: 0,
        }
    }
    /// classification histogram
    pub fn label(&mut self, l: &str) {
        if self.active {
            match self.labels.get_mut(l) {
                Some(c) => *c += 1,
                None => {
                    self.labels.insert(l.to_string(), 1);
                }
            }
        }
    }
    pub fn label_if(&mut self, cond: bool, l: &str) {
        if cond {
            self.label(l)
        }
    }
    /// record one distinct non-trivial case (by the property's stated rule)
    pub fn nontrivial<H: Hash + ?Sized>(&mut self, key: &H) {
        if self.active {
            self.nontrivial.insert(hash_of(key));
        }
    }
    /// offer a sample; kept for the first few calls and then at exponentially spaced calls
    pub fn sample(&mut self, f: impl FnOnce() -> Value) {
        if !self.active {
            return;
        }
        self.sample_calls += 1;
        let c = self.sample_calls;
        if c <= 3 || (c.is_power_of_two() && c >= 64) {
            self.samples.push(f());
        }
    }
    pub fn exclude(&mut self, key: &str) {
        if self.active {
            *self.excluded.entry(key.to_string()).or_default() += 1;
        }
    }
    fn merge(&mut self, o: Obs) {
        self.evaluations += o.evaluations;
        for (k, v) in o.labels {
            *self.labels.entry(k).or_default() += v;
        }
        self.nontrivial.extend(o.nontrivial);
        self.samples.extend(o.samples);
        for (k, v) in o.excluded {
            *self.excluded.entry(k).or_default() += v;
        }
    }
}

pub type Emit<'a, I> = dyn FnMut(I) -> bool + 'a;

pub trait Property: Sync {
    type Input: Serialize + DeserializeOwned + Clone + std::fmt::Debug + Send + 'static;
    fn id(&self) -> &'static str;
    /// generator + non-triviality rule, in words
    fn rule(&self) -> String;
    fn assumptions(&self) -> Vec<String> {
        vec![]
    }
    /// names of the finite sub-domains that `enumerate` covers completely in this tier
    fn exhaustive_subdomains(&self, _tier: Tier) -> Vec<String> {
        vec![]
    }
    fn strategy(&self, tier: Tier) -> BoxedStrategy<Self::Input>;
    /// number of generated cases (whole run, all shards)
    fn cases(&self, tier: Tier) -> u64;
    /// enumerate this shard's part of the enumerated sub-domains; stop when `emit` returns false
    fn enumerate(&self, _tier: Tier, _shard: usize, _nshards: usize, _emit: &mut Emit<Self::Input>) {}
    /// the oracle. Err(message) = the property is violated on this input.
    fn check(&self, input: &Self::Input, obs: &mut Obs) -> Result<(), String>;
    /// stable key of the known-finding signature this input matches, if any
    fn known_signature(&self, _input: &Self::Input) -> Option<&'static str> {
        None
    }
    /// libFuzzer campaign of the thorough tier: (cargo-fuzz target, decoder of a raw fuzz input into a case)
    fn fuzz_target(&self) -> Option<&'static str> {
        None
    }
    fn from_fuzz_bytes(&self, _data: &[u8]) -> Option<Self::Input> {
        None
    }
    /// extra whole-run procedures (not per-case): returns Err(message, replay json) on violation
    fn extra(&self, _tier: Tier, _seed: u64, _obs: &mut Obs) -> Result<(), (String, Value)> {
        Ok(())
    }
}

thread_local! { static PANIC_MSG: RefCell<Option<String>> = RefCell::new(None); }

pub fn install_panic_hook() {
    std::panic::set_hook(Box::new(|info| {
        let msg = if let Some(s) = info.payload().downcast_ref::<&str>() {
            s.to_string()
        } else if let Some(s) = info.payload().downcast_ref::<String>() {
            s.clone()
        } else {
            "panic".to_string()
        };
        let loc = info.location().map(|l| format!(" at {}:{}", l.file(), l.line())).unwrap_or_default();
        PANIC_MSG.with(|m| *m.borrow_mut() = Some(format!("{}{}", msg, loc)));
    }));
}

/// run a closure, turning a panic into Err("panic: ...")
pub fn no_panic<T>(what: &str, f: impl FnOnce() -> T) -> Result<T, String> {
    match std::panic::catch_unwind(std::panic::AssertUnwindSafe(f)) {
        Ok(v) => Ok(v),
        Err(_) => {
            let m = PANIC_MSG.with(|m| m.borrow_mut().take()).unwrap_or_default();
            Err(format!("panic in {}: {}", what, m))
        }
    }
}

fn checked<P: Property>(p: &P, input: &P::Input, obs: &mut Obs) -> Result<(), String> {
    // VERIF_SLOW_MS=n: report cases slower than n ms on stderr (generator tuning aid)
    let t0 = std::time::Instant::now();
    let r = checked_inner(p, input, obs);
    if let Some(ms) = slow_ms() {
        let e = t0.elapsed().as_millis() as u64;
        if e >= ms {
            eprintln!("SLOW {} ms: {}", e, serde_json::to_string(input).unwrap_or_default().chars().take(300).collect::<String>());
        }
    }
    r
}
fn slow_ms() -> Option<u64> {
    static V: std::sync::OnceLock<Option<u64>> = std::sync::OnceLock::new();
    *V.get_or_init(|| std::env::var("VERIF_SLOW_MS").ok().and_then(|s| s.parse().ok()))
}
fn checked_inner<P: Property>(p: &P, input: &P::Input, obs: &mut Obs) -> Result<(), String> {
    match std::panic::catch_unwind(std::panic::AssertUnwindSafe(|| p.check(input, obs))) {
        Ok(r) => r,
        Err(_) => {
            let m = PANIC_MSG.with(|m| m.borrow_mut().take()).unwrap_or_default();
            Err(format!("panic: {}", m))
        }
    }
}

#[derive(Clone, Debug)]
pub struct Finding {
    pub property: String,
    pub key: String,
    pub what: String,
    pub input: Value,
}

pub struct Known {
    pub findings: Vec<Finding>,
}
impl Known {
    pub fn load() -> Known {
        let path = verif_dir().join("known_findings.json");
        let mut findings = vec![];
        if let Ok(s) = std::fs::read_to_string(&path) {
            let v: Value = serde_json::from_str(&s).unwrap_or_else(|e| infra(&format!("known_findings.json does not parse: {}", e)));
            for f in v["findings"].as_array().cloned().unwrap_or_default() {
                findings.push(Finding {
                    property: f["property"].as_str().unwrap_or("").to_string(),
                    key: f["key"].as_str().unwrap_or("").to_string(),
                    what: f["what"].as_str().unwrap_or("").to_string(),
                    input: f["input"].clone(),
                });
            }
        }
        Known { findings }
    }
    pub fn keys_for(&self, id: &str) -> BTreeSet<String> {
        self.findings.iter().filter(|f| f.property == id).map(|f| f.key.clone()).collect()
    }
}

pub fn infra(msg: &str) -> ! {
    eprintln!("INFRA: {}", msg);
    println!("INCONCLUSIVE: {}", msg);
    std::process::exit(2)
}

pub struct Opts {
    pub tier: Tier,
    pub seed: u64,
    pub replay: Option<PathBuf>,
    pub threads: usize,
    /// multiply the generated-case budget (VERIF_SCALE, default 1.0)
    pub scale: f64,
}

struct Failure {
    input: Value,
    message: String,
    origin: &'static str,
}

fn shard_seed(seed: u64, id: &str, shard: usize) -> u64 {
    hash_of(&(seed, id, shard as u64, "t2n-verif-v1"))
}

fn write_replay(id: &str, f: &Failure) -> PathBuf {
    let dir = verif_dir().join("replays").join("found");
    let _ = std::fs::create_dir_all(&dir);
    let body = json!({"property": id, "origin": f.origin, "message": f.message, "input": f.input});
    let text = serde_json::to_string_pretty(&body).unwrap();
    let path = dir.join(format!("{}-{:016x}.json", id, hash_of(&serde_json::to_string(&f.input).unwrap())));
    std::fs::write(&path, text).unwrap_or_else(|e| infra(&format!("cannot write replay {}: {}", path.display(), e)));
    path
}

fn read_replay<I: DeserializeOwned>(path: &Path) -> (I, Value) {
    let s = std::fs::read_to_string(path).unwrap_or_else(|e| infra(&format!("cannot read {}: {}", path.display(), e)));
    let v: Value = serde_json::from_str(&s).unwrap_or_else(|e| infra(&format!("{} does not parse: {}", path.display(), e)));
    let inp = if v.get("input").is_some() { v["input"].clone() } else { v.clone() };
    let i: I = serde_json::from_value(inp.clone()).unwrap_or_else(|e| infra(&format!("{}: input has the wrong shape: {}", path.display(), e)));
    (i, inp)
}

pub fn run<P: Property>(p: &P, opts: &Opts) -> i32 {
    let id = p.id();
    let t0 = Instant::now();
    install_panic_hook();

    // single replay mode
    if let Some(path) = &opts.replay {
        let raw: Value = std::fs::read_to_string(path).ok().and_then(|s| serde_json::from_str(&s).ok()).unwrap_or(Value::Null);
        if raw["origin"] == "procedure" {
            // a whole-run procedure (thread stress, silence, lookup table) failed: re-run it
            let mut obs = Obs::new();
            return match p.extra(opts.tier, opts.seed, &mut obs) {
                Ok(()) => {
                    println!("REPLAY-OK property={} replay={} (procedure re-run)", id, path.display());
                    0
                }
                Err((m, _)) => {
                    println!("replay fails: {}", m);
                    println!("VIOLATION property={} replay={}", id, path.display());
                    1
                }
            };
        }
        let (input, _): (P::Input, Value) = read_replay(path);
        let mut obs = Obs::new();
        return match checked(p, &input, &mut obs) {
            Ok(()) => {
                println!("REPLAY-OK property={} replay={}", id, path.display());
                0
            }
            Err(m) => {
                println!("replay fails: {}", m);
                println!("VIOLATION property={} replay={}", id, path.display());
                1
            }
        };
    }

    let known = Known::load();
    let known_keys = known.keys_for(id);
    let mut total = Obs::new();
    let mut failures: Vec<Failure> = vec![];
    let mut known_seen: Vec<String> = vec![];
    let mut replayed = 0u64;

    // 1. regress corpus (must pass) -----------------------------------------------------------
    let regress_dir = verif_dir().join("replays").join("regress");
    let mut files: Vec<PathBuf> = std::fs::read_dir(&regress_dir)
        .map(|d| d.filter_map(|e| e.ok().map(|e| e.path())).collect())
        .unwrap_or_default();
    files.sort();
    // VERIF_NO_REGRESS=1: skip the regress corpus (used to show that the generated search alone finds a defect)
    if std::env::var("VERIF_NO_REGRESS").map_or(false, |v| v == "1") {
        files.clear();
    }
    for f in files {
        let name = f.file_name().unwrap().to_string_lossy().to_string();
        if !name.starts_with(&format!("{}-", id)) || !name.ends_with(".json") {
            continue;
        }
        let (input, raw): (P::Input, Value) = read_replay(&f);
        if let Some(k) = p.known_signature(&input) {
            if known_keys.contains(k) {
                continue;
            }
        }
        replayed += 1;
        total.evaluations += 1;
        if let Err(m) = checked(p, &input, &mut total) {
            println!("regress replay {} fails: {}", name, m);
            failures.push(Failure { input: raw, message: m, origin: "regress" });
        }
    }

    // 2. known findings: replay their minimal input --------------------------------------------
    for f in known.findings.iter().filter(|f| f.property == id) {
        let input: P::Input = serde_json::from_value(f.input.clone())
            .unwrap_or_else(|e| infra(&format!("known finding {} has a malformed input: {}", f.key, e)));
        let mut scratch = Obs::new();
        match checked(p, &input, &mut scratch) {
            Err(_) => {
                println!("KNOWN-FINDING: property={} {}: {}", id, f.key, f.what);
                known_seen.push(f.key.clone());
            }
            Ok(()) => println!("note: known finding {} no longer reproduces on this tree", f.key),
        }
    }

    // 3. whole-run procedures --------------------------------------------------------------------
    if failures.is_empty() {
        match std::panic::catch_unwind(std::panic::AssertUnwindSafe(|| p.extra(opts.tier, opts.seed, &mut total))) {
            Ok(Ok(())) => {}
            Ok(Err((m, v))) => failures.push(Failure { input: v, message: m, origin: "procedure" }),
            Err(_) => {
                let m = PANIC_MSG.with(|m| m.borrow_mut().take()).unwrap_or_default();
                infra(&format!("a whole-run procedure of {} panicked (harness problem, not a verdict): {}", id, m));
            }
        }
    }

    // 4. enumerated sub-domains + 5. generated cases, sharded -----------------------------------
    let nshards = opts.threads.max(1);
    let stop = AtomicBool::new(!failures.is_empty());
    let results: Mutex<Vec<(Obs, Option<Failure>, u64, u64)>> = Mutex::new(vec![]);
    let gen_total = ((p.cases(opts.tier) as f64) * opts.scale) as u64;
    std::thread::scope(|s| {
        for shard in 0..nshards {
            let stop = &stop;
            let results = &results;
            let known_keys = &known_keys;
            let tier = opts.tier;
            let seed = opts.seed;
            std::thread::Builder::new()
                .stack_size(64 << 20)
                .spawn_scoped(s, move || {
                  let body = std::panic::catch_unwind(std::panic::AssertUnwindSafe(|| {
                    let mut obs = Obs::new();
                    let mut fail: Option<Failure> = None;
                    let (mut n_enum, mut n_gen) = (0u64, 0u64);
                    // enumerated
                    {
                        let mut emit = |input: P::Input| -> bool {
                            if stop.load(Ordering::Relaxed) {
                                return false;
                            }
                            if let Some(k) = p.known_signature(&input) {
                                if known_keys.contains(k) {
                                    obs.exclude(k);
                                    return true;
                                }
                            }
                            obs.evaluations += 1;
                            n_enum += 1;
                            match checked(p, &input, &mut obs) {
                                Ok(()) => true,
                                Err(m) => {
                                    fail = Some(Failure { input: serde_json::to_value(&input).unwrap(), message: m, origin: "enumerated" });
                                    stop.store(true, Ordering::Relaxed);
                                    false
                                }
                            }
                        };
                        p.enumerate(tier, shard, nshards, &mut emit);
                    }
                    // generated
                    let my_cases = gen_total / nshards as u64 + if (shard as u64) < gen_total % nshards as u64 { 1 } else { 0 };
                    if fail.is_none() && my_cases > 0 && !stop.load(Ordering::Relaxed) {
                        let cfg = Config {
                            cases: my_cases.min(u32::MAX as u64) as u32,
                            rng_seed: RngSeed::Fixed(shard_seed(seed, p.id(), shard)),
                            failure_persistence: None,
                            max_shrink_iters: 20_000,
                            max_global_rejects: 1_000_000,
                            ..Config::default()
                        };
                        let mut runner = TestRunner::new(cfg);
                        let strat = p.strategy(tier);
                        let obs_cell = RefCell::new(&mut obs);
                        let failed_once = std::cell::Cell::new(false);
                        let n_gen_cell = std::cell::Cell::new(0u64);
                        let r = runner.run(&strat, |input| {
                            let mut o = obs_cell.borrow_mut();
                            if !failed_once.get() && stop.load(Ordering::Relaxed) {
                                // another shard already failed: finish fast
                                return Ok(());
                            }
                            if let Some(k) = p.known_signature(&input) {
                                if known_keys.contains(k) {
                                    o.exclude(k);
                                    return Ok(());
                                }
                            }
                            if o.active {
                                o.evaluations += 1;
                                n_gen_cell.set(n_gen_cell.get() + 1);
                            }
                            match checked(p, &input, &mut o) {
                                Ok(()) => Ok(()),
                                Err(m) => {
                                    // stop counting: the closure is re-run while shrinking
                                    o.active = false;
                                    failed_once.set(true);
                                    stop.store(true, Ordering::Relaxed);
                                    Err(TestCaseError::fail(m))
                                }
                            }
                        });
                        n_gen = n_gen_cell.get();
                        drop(obs_cell);
                        obs.active = true;
                        match r {
                            Ok(()) => {}
                            Err(TestError::Fail(reason, input)) => {
                                // re-run the minimal case to get its own message
                                let mut scratch = Obs::new();
                                let m = checked(p, &input, &mut scratch).err().unwrap_or_else(|| reason.message().to_string());
                                fail = Some(Failure { input: serde_json::to_value(&input).unwrap(), message: m, origin: "generated+shrunk" });
                            }
                            Err(TestError::Abort(reason)) => {
                                infra(&format!("proptest aborted (generator problem, not a violation): {}", reason.message()));
                            }
                        }
                    }
                    results.lock().unwrap().push((obs, fail, n_enum, n_gen));
                  }));
                  if body.is_err() {
                      // a panic outside the oracle (generator / engine): harness problem, never a verdict
                      let m = PANIC_MSG.with(|m| m.borrow_mut().take()).unwrap_or_default();
                      infra(&format!("shard {} of {} panicked outside the oracle: {}", shard, p.id(), m));
                  }
                })
                .unwrap();
        }
    });
    let (mut n_enum, mut n_gen) = (0u64, 0u64);
    let mut res = results.into_inner().unwrap();
    // deterministic merge order is not needed for counts; samples are sorted below
    for (obs, fail, e, g) in res.drain(..) {
        total.merge(obs);
        n_enum += e;
        n_gen += g;
        if let Some(f) = fail {
            failures.push(f);
        }
    }

    // 6. libFuzzer campaign (thorough tier only; coverage-guided, oracle inside the target) -------------
    let mut engines: Vec<String> = vec!["proptest-1.11 TestRunner (sharded, fixed seed)".into(), "enumeration".into()];
    let mut fuzz_execs = 0u64;
    if opts.tier == Tier::Thorough && failures.is_empty() {
        if let Some(target) = p.fuzz_target() {
            match libfuzzer_campaign(p, target, opts) {
                FuzzOutcome::Unavailable(why) => engines.push(format!("libFuzzer {}: not run ({})", target, why)),
                FuzzOutcome::Clean(n) => {
                    fuzz_execs = n;
                    total.evaluations += n;
                    engines.push(format!("libFuzzer target {} (oracle of {} in-target): {} executions, no crash", target, id, n));
                }
                FuzzOutcome::Crash { execs, input, message, reproduced } => {
                    fuzz_execs = execs;
                    total.evaluations += execs;
                    if reproduced {
                        engines.push(format!("libFuzzer target {}: crash after {} executions, reproduced through the oracle", target, execs));
                        failures.push(Failure { input, message, origin: "libfuzzer" });
                    } else {
                        engines.push(format!("libFuzzer target {}: a crash after {} executions did NOT reproduce through the oracle outside the fuzz build (kept as inconclusive): {}", target, execs, message));
                        println!("INCONCLUSIVE-NOTE: libFuzzer crash not reproduced: {}", message);
                    }
                }
            }
        }
    }

    // report ---------------------------------------------------------------------------------------
    failures.sort_by_key(|f| (serde_json::to_string(&f.input).unwrap().len(), serde_json::to_string(&f.input).unwrap()));
    let mut exit = 0;
    let mut replay_path = None;
    if let Some(f) = failures.first() {
        let path = write_replay(id, f);
        println!("violation ({}): {}", f.origin, f.message);
        println!("input: {}", serde_json::to_string(&f.input).unwrap());
        println!("VIOLATION property={} replay={}", id, path.display());
        replay_path = Some(path);
        exit = 1;
    }
    total.samples.sort_by_key(|v| serde_json::to_string(v).unwrap());
    total.samples.dedup();
    let ns = total.samples.len();
    let samples: Vec<Value> = if ns > 24 {
        (0..24).map(|i| total.samples[i * ns / 24].clone()).collect()
    } else {
        total.samples.clone()
    };
    let wall = t0.elapsed().as_secs_f64();
    let evidence = json!({
        "property_id": id,
        "tier": opts.tier.name(),
        "seed": opts.seed,
        "level": "exploration",
        "coverage": {
            "evaluations": total.evaluations,
            "distinct_nontrivial": total.nontrivial.len(),
            "rule": p.rule(),
            "samples": samples,
            "enumerated": n_enum,
            "generated": n_gen,
            "replayed": replayed,
            "classes": total.labels,
            "excluded_by_construction": total.excluded,
            "exhaustive_subdomains": p.exhaustive_subdomains(opts.tier),
            "exhaustive": false,
            "engines_run": engines,
            "libfuzzer_executions": fuzz_execs,
            "known_findings_seen": known_seen,
            "shards": nshards,
            "violation_replay": replay_path.as_ref().map(|p| p.display().to_string()),
        },
        "assumptions": p.assumptions(),
        "wall_s": wall,
        "violations": failures.len().min(1),
    });
    // VERIF_EVIDENCE_DIR: used by tools/try_mutant.sh so that runs against a deliberately broken tree
    // do not overwrite the evidence of the real tree
    let evdir = std::env::var("VERIF_EVIDENCE_DIR").map(PathBuf::from).unwrap_or_else(|_| verif_dir().join("evidence"));
    let _ = std::fs::create_dir_all(&evdir);
    let evpath = evdir.join(format!("{}.json", id));
    std::fs::write(&evpath, serde_json::to_string_pretty(&evidence).unwrap())
        .unwrap_or_else(|e| infra(&format!("cannot write evidence: {}", e)));
    println!(
        "{} {} seed={} evaluations={} (enumerated {} generated {} replayed {}) distinct_nontrivial={} wall={:.1}s -> {}",
        id,
        opts.tier.name(),
        opts.seed,
        total.evaluations,
        n_enum,
        n_gen,
        replayed,
        total.nontrivial.len(),
        wall,
        if exit == 0 { "HELD" } else { "VIOLATED" }
    );
    exit
}

/// helper for sharded enumeration over an index range
pub fn shard_range(n: u64, shard: usize, nshards: usize) -> impl Iterator<Item = u64> {
    (shard as u64..n).step_by(nshards.max(1))
}

pub fn boxed<S: Strategy + 'static>(s: S) -> BoxedStrategy<S::Value> {
    s.boxed()
}

pub enum FuzzOutcome {
    Unavailable(String),
    Clean(u64),
    Crash { execs: u64, input: Value, message: String, reproduced: bool },
}

/// Fixed-work libFuzzer campaign: 8 jobs x (runs/8) executions, seed-pinned (approximately reproducible;
/// the saved failing input, re-decoded and re-checked here, is the reproducible unit).
fn libfuzzer_campaign<P: Property>(p: &P, target: &str, opts: &Opts) -> FuzzOutcome {
    use std::process::Command;
    let harness = verif_dir().join("harness");
    let fuzzdir = harness.join("fuzz");
    if !fuzzdir.join("Cargo.toml").exists() {
        return FuzzOutcome::Unavailable("no fuzz crate".into());
    }
    let build = Command::new("cargo").args(["+nightly", "fuzz", "build", target]).current_dir(&harness).env("CARGO_NET_OFFLINE", "true").output();
    match build {
        Ok(o) if o.status.success() => {}
        Ok(o) => return FuzzOutcome::Unavailable(format!("cargo +nightly fuzz build failed: {}", String::from_utf8_lossy(&o.stderr).lines().rev().take(3).collect::<Vec<_>>().join(" | "))),
        Err(e) => return FuzzOutcome::Unavailable(format!("cannot run cargo fuzz: {}", e)),
    }
    let tag = format!("{}-{}-{}", target, p.id(), opts.seed);
    let work = fuzzdir.join("work").join(&tag);
    let _ = std::fs::remove_dir_all(&work);
    let corpus = work.join("corpus");
    let arts = work.join("artifacts");
    std::fs::create_dir_all(&corpus).ok();
    std::fs::create_dir_all(&arts).ok();
    // deterministic seed corpus: 64 byte strings derived from the seed (full-length inputs from the start)
    for i in 0..64u64 {
        let mut bytes = vec![];
        for k in 0..24u64 {
            bytes.extend_from_slice(&hash_of(&(opts.seed, p.id(), i, k)).to_le_bytes());
        }
        bytes.truncate(24 + (i as usize * 3) % 160);
        std::fs::write(corpus.join(format!("seed-{:02}", i)), bytes).ok();
    }
    let jobs = opts.threads.clamp(1, 8);
    let total_runs = ((2_000_000f64) * opts.scale) as u64;
    let runs = total_runs / jobs as u64;
    let bin = fuzzdir.join("target/x86_64-unknown-linux-gnu/release").join(target);
    if !bin.exists() {
        return FuzzOutcome::Unavailable(format!("fuzz binary {} not found after build", bin.display()));
    }
    let out = Command::new(&bin)
        .arg(&corpus)
        .args([
            format!("-runs={}", runs),
            format!("-seed={}", (opts.seed % 4_000_000_000).max(1)),
            "-max_len=256".into(),
            "-len_control=0".into(),
            format!("-jobs={}", jobs),
            format!("-workers={}", jobs),
            format!("-artifact_prefix={}/", arts.display()),
            "-print_final_stats=1".into(),
            "-max_total_time=2400".into(),
            "-rss_limit_mb=4096".into(),
        ])
        .current_dir(&work)
        .env("T2N_FUZZ_PROP", p.id())
        .env("RUST_BACKTRACE", "0")
        .output();
    let out = match out {
        Ok(o) => o,
        Err(e) => return FuzzOutcome::Unavailable(format!("cannot start the fuzz binary: {}", e)),
    };
    // per-job logs fuzz-<k>.log in the work dir
    let mut execs = 0u64;
    let mut violation_line = String::new();
    for k in 0..jobs {
        if let Ok(log) = std::fs::read_to_string(work.join(format!("fuzz-{}.log", k))) {
            for line in log.lines() {
                if let Some(v) = line.strip_prefix("stat::number_of_executed_units:") {
                    execs += v.trim().parse::<u64>().unwrap_or(0);
                }
                if line.contains("T2N-VIOLATION") && violation_line.is_empty() {
                    violation_line = line.chars().take(600).collect();
                }
            }
        }
    }
    let _ = out;
    let mut crashes: Vec<PathBuf> = std::fs::read_dir(&arts).map(|d| d.filter_map(|e| e.ok().map(|e| e.path())).collect()).unwrap_or_default();
    crashes.sort();
    if crashes.is_empty() {
        let _ = std::fs::remove_dir_all(&work);
        return FuzzOutcome::Clean(execs);
    }
    // smallest artefact first; re-decode and re-check outside the fuzz build
    crashes.sort_by_key(|c| std::fs::metadata(c).map(|m| m.len()).unwrap_or(u64::MAX));
    for c in &crashes {
        if let Ok(bytes) = std::fs::read(c) {
            if let Some(input) = p.from_fuzz_bytes(&bytes) {
                let mut scratch = Obs::new();
                if let Err(m) = checked(p, &input, &mut scratch) {
                    return FuzzOutcome::Crash { execs, input: serde_json::to_value(&input).unwrap(), message: format!("{} (libFuzzer artefact {})", m, c.display()), reproduced: true };
                }
            }
        }
    }
    FuzzOutcome::Crash { execs, input: Value::Null, message: format!("{} artefact(s) in {}; first message: {}", crashes.len(), arts.display(), violation_line), reproduced: false }
}
