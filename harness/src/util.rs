//! Shared helpers: language handles, own token type, scanning through the hook pipeline.
use serde::{Deserialize, Serialize};
use std::sync::OnceLock;
use text2num::verif_hooks::{tokenize, BasicToken};
use text2num::{find_numbers, BasicAnnotate, LangInterpreter, Language, Occurence, Replace, Token};

pub const LANGS: [&str; 7] = ["de", "en", "es", "fr", "it", "nl", "pt"];

pub fn new_lang(code: &str) -> Language {
    match code {
        "de" => Language::german(),
        "en" => Language::english(),
        "es" => Language::spanish(),
        "fr" => Language::french(),
        "it" => Language::italian(),
        "nl" => Language::dutch(),
        "pt" => Language::portuguese(),
        _ => panic!("unknown language {}", code),
    }
}
pub fn lang_index(code: &str) -> usize {
    LANGS.iter().position(|l| *l == code).unwrap_or_else(|| panic!("unknown language {}", code))
}
/// one shared interpreter per language (the library documents them as stateless)
pub fn lang(code: &str) -> &'static Language {
    static L: OnceLock<Vec<Language>> = OnceLock::new();
    &L.get_or_init(|| LANGS.iter().map(|c| new_lang(c)).collect())[lang_index(code)]
}

#[derive(Clone, Debug, PartialEq, Eq, Hash, Serialize, Deserialize)]
pub struct Occ {
    pub start: usize,
    pub end: usize,
    pub text: String,
    pub value_bits: u64,
    pub ord: bool,
}
impl Occ {
    pub fn value(&self) -> f64 {
        f64::from_bits(self.value_bits)
    }
}
pub fn occs(v: Vec<Occurence>) -> Vec<Occ> {
    v.into_iter()
        .map(|o| Occ { start: o.start, end: o.end, text: o.text, value_bits: o.value.to_bits(), ord: o.is_ordinal })
        .collect()
}

pub fn tokens_of(text: &str) -> Vec<BasicToken> {
    tokenize(text).collect()
}
/// tokenize + annotate exactly as `replace_numbers_in_text` does
pub fn annotated(text: &str, lg: &Language) -> Vec<BasicToken> {
    let mut t: Vec<BasicToken> = tokenize(text).collect();
    lg.basic_annotate(&mut t);
    t
}
pub fn scan(text: &str, lg: &Language, th: f64) -> (Vec<BasicToken>, Vec<Occ>) {
    let t = annotated(text, lg);
    let o = occs(find_numbers(t.iter(), lg, th));
    (t, o)
}
pub fn splice(t: &[BasicToken], o: &[Occ]) -> String {
    let mut s = String::new();
    let mut i = 0;
    for oc in o {
        while i < oc.start && i < t.len() {
            s.push_str(&t[i].text);
            i += 1;
        }
        s.push_str(&oc.text);
        i = oc.end;
    }
    while i < t.len() {
        s.push_str(&t[i].text);
        i += 1;
    }
    s
}
/// a "word" token starts with an alphanumeric character (this is how the tokenizer splits)
pub fn is_word(s: &str) -> bool {
    s.chars().next().map_or(false, |c| c.is_alphanumeric())
}
pub fn has_alpha(s: &str) -> bool {
    s.chars().any(|c| c.is_alphabetic())
}
pub fn is_ws(s: &str) -> bool {
    s.chars().all(char::is_whitespace)
}
/// tokens the scanner drops before looking at anything else
pub fn scanner_skips(s: &str) -> bool {
    s == "-" || is_ws(s)
}

/// Own token type for stream-level properties: records which input tokens it was built from.
/// The "separated from predecessor" hint is carried in two realistic ways: as a flag on the token
/// itself (`sep`, `via_prev == false`) or as a pause recorded on the preceding token
/// (`pause_after`, read through the `previous` argument of `nt_separated`, `via_prev == true`).
#[derive(Clone, Debug, PartialEq, Eq, Hash, Serialize, Deserialize)]
pub struct Tk {
    pub ids: Vec<usize>,
    pub text: String,
    pub lower: String,
    pub sep: bool,
    pub nan: bool,
    pub replaced: bool,
    #[serde(default)]
    pub pause_after: bool,
    #[serde(default)]
    pub via_prev: bool,
}
impl Tk {
    pub fn new(id: usize, text: &str) -> Tk {
        Tk { ids: vec![id], text: text.to_string(), lower: text.to_lowercase(), sep: false, nan: false, replaced: false, pause_after: false, via_prev: false }
    }
}
impl Token for &Tk {
    fn text(&self) -> &str {
        &self.text
    }
    fn text_lowercase(&self) -> &str {
        &self.lower
    }
    fn nt_separated(&self, previous: &Self) -> bool {
        if self.via_prev {
            previous.pause_after
        } else {
            self.sep
        }
    }
    fn not_a_number_part(&self) -> bool {
        self.nan
    }
}
impl BasicAnnotate for Tk {
    fn text_lowercase(&self) -> &str {
        &self.lower
    }
    fn set_nan(&mut self, val: bool) {
        self.nan = val
    }
}
thread_local! {
    /// how many of the replaced tokens the replacement constructor reads from the iterator it is handed
    /// (a constructor is free to read none, some or all of them)
    pub static CONSUME_LIMIT: std::cell::Cell<usize> = std::cell::Cell::new(usize::MAX);
}
impl Replace for Tk {
    fn replace<I: Iterator<Item = Self>>(replaced: I, data: String) -> Self {
        let limit = CONSUME_LIMIT.with(|c| c.get());
        let mut ids = vec![];
        let mut it = replaced;
        let mut k = 0;
        while k < limit {
            match it.next() {
                Some(t) => ids.extend(t.ids),
                None => break,
            }
            k += 1;
        }
        drop(it);
        Tk { ids, lower: data.to_lowercase(), text: data, sep: false, nan: false, replaced: true, pause_after: false, via_prev: false }
    }
}
pub fn plain_stream(words: &[&str]) -> Vec<Tk> {
    let mut v = vec![];
    for (i, w) in words.iter().enumerate() {
        if i > 0 {
            v.push(Tk::new(v.len(), " "));
        }
        v.push(Tk::new(v.len(), w));
    }
    v
}

pub fn decimal_mark(lang: &str) -> char {
    if lang == "en" {
        '.'
    } else {
        ','
    }
}
pub fn th_of(bits: u64) -> f64 {
    f64::from_bits(bits)
}
pub fn fmt_th(bits: u64) -> String {
    format!("{:?}", f64::from_bits(bits))
}

/// Apply generated hint bytes to a stream (low nibble == 1: separated from predecessor,
/// high nibble == 1: not a number part). Hints are only put on tokens the scanner looks at:
/// whitespace-only and bare "-" tokens are dropped by the scanner before any hint is read, and
/// no real annotator / ASR stream flags those (DESIGN.md §4.2).
pub fn apply_hints(stream: &mut [Tk], hints: &[u8]) -> bool {
    let mut any = false;
    let mut pred: Option<usize> = None;
    for i in 0..stream.len() {
        if scanner_skips(&stream[i].text) {
            continue;
        }
        let h = hints.get(i).copied().unwrap_or(0);
        let sep = h & 0x0f == 1;
        stream[i].nan = h >> 4 == 1;
        stream[i].sep = sep;
        if sep {
            if let Some(j) = pred {
                // half of the hints are expressed as a pause recorded on the predecessor
                if hints.get(j).copied().unwrap_or(0) & 0x20 == 0 {
                    stream[i].via_prev = true;
                    stream[j].pause_after = true;
                }
            }
        }
        any |= stream[i].sep || stream[i].nan;
        pred = Some(i);
    }
    any
}
/// set / clear the separation hint of token i (both carriers)
pub fn set_sep(stream: &mut [Tk], i: usize, on: bool, via_prev: bool) {
    let pred = (0..i).rev().find(|&j| !scanner_skips(&stream[j].text));
    stream[i].sep = on;
    stream[i].via_prev = false;
    if let Some(j) = pred {
        if on && via_prev {
            stream[i].via_prev = true;
            stream[j].pause_after = true;
        } else if !on {
            stream[j].pause_after = false;
        }
    }
}

/// French only: true when the documented new/nine heuristic really set a `neuf` of this text aside
/// (annotation flag on a `neuf` token, and one of un/le/du/l' present). Such texts are outside the
/// domain of the round-trip oracles (the word is an adjective there by the library's documented rule).
pub fn neuf_set_aside(lang_code: &str, text: &str) -> bool {
    if lang_code != "fr" {
        return false;
    }
    let t = annotated(text, lang("fr"));
    t.iter().any(|x| x.nan && x.lowercase == "neuf") && t.iter().any(|x| matches!(x.lowercase.as_str(), "un" | "le" | "du" | "l'"))
}
