pub mod digit;
