//! Reference model of the public digit builder, written from its doc comments and the
//! statement of C12 (never calls the builder).
#[derive(Clone, Debug, Default, PartialEq)]
pub struct Model {
    pub buf: Vec<u8>,
    pub lz: usize,
    pub frozen: bool,
}
fn zeros(s: &[u8]) -> bool {
    s.iter().all(|&c| c == b'0')
}
impl Model {
    pub fn render(&self) -> String {
        let mut s = "0".repeat(self.lz);
        s.push_str(std::str::from_utf8(&self.buf).unwrap());
        s
    }
    pub fn len(&self) -> usize {
        self.buf.len() + self.lz
    }
    pub fn is_empty(&self) -> bool {
        self.buf.is_empty() && self.lz == 0
    }
    pub fn is_null(&self) -> bool {
        self.buf.is_empty()
    }
    pub fn peek(&self, k: usize) -> &[u8] {
        let l = self.buf.len();
        &self.buf[l - k.min(l)..]
    }
    pub fn is_free(&self, k: usize) -> bool {
        zeros(self.peek(k))
    }
    pub fn is_position_free(&self, k: usize) -> bool {
        let l = self.buf.len();
        k >= l || self.buf[l - 1 - k] == b'0'
    }
    /// inclusive on both ends, a < b
    pub fn is_range_free(&self, a: usize, b: usize) -> bool {
        (a..=b.min(self.buf.len())).all(|k| self.is_position_free(k))
    }
    pub fn put(&mut self, d: &[u8]) -> bool {
        if self.frozen {
            return false;
        }
        if self.buf.is_empty() && d == b"0" {
            self.lz += 1;
            return true;
        }
        if zeros(d) {
            return false;
        }
        let (l, p) = (self.buf.len(), d.len());
        if l == 0 {
            self.buf = d.to_vec();
            return true;
        }
        if l < p || !zeros(&self.buf[l - p..]) {
            return false;
        }
        self.buf[l - p..].copy_from_slice(d);
        true
    }
    pub fn put_digit_at(&mut self, c: u8, pos: usize) -> bool {
        if self.frozen || c == b'0' {
            return false;
        }
        let l = self.buf.len();
        if pos >= l {
            let mut nb = vec![b'0'; pos + 1];
            nb[0] = c;
            nb[pos + 1 - l..].copy_from_slice(&self.buf);
            self.buf = nb;
            true
        } else if self.buf[l - 1 - pos] == b'0' {
            self.buf[l - 1 - pos] = c;
            true
        } else {
            false
        }
    }
    /// documented "force put": overwrites the last |d| positions (replaces a shorter buffer)
    pub fn fput(&mut self, d: &[u8]) -> bool {
        if self.frozen {
            return false;
        }
        let (l, p) = (self.buf.len(), d.len());
        if l <= p {
            self.buf = d.to_vec();
        } else {
            self.buf[l - p..].copy_from_slice(d);
        }
        true
    }
    pub fn push(&mut self, d: &[u8]) -> bool {
        self.buf.extend_from_slice(d);
        true
    }
    pub fn shift(&mut self, p: usize) -> bool {
        if self.frozen {
            return false;
        }
        if p == 0 {
            return true;
        }
        if self.buf.is_empty() {
            // nothing there: implicit one, always succeeds
            self.buf = vec![b'1'];
            self.buf.resize(1 + p, b'0');
            return true;
        }
        let l = self.buf.len();
        if l <= p {
            // the whole buffer is the group: all zeros means "nothing there" -> implicit one
            if zeros(&self.buf) {
                self.buf[l - 1] = b'1';
            }
            self.buf.resize(l + p, b'0');
            return true;
        }
        let pad = self.buf[l - p..].iter().take_while(|&&c| c == b'0').count();
        let (sig, implicit) = if pad == p { (1usize, true) } else { (p - pad, false) };
        if l < p + sig || !zeros(&self.buf[l - p - sig..l - p]) {
            return false;
        }
        let digits: Vec<u8> = if implicit { vec![b'1'] } else { self.buf[l - sig..].to_vec() };
        self.buf[l - p - sig..l - p].copy_from_slice(&digits);
        for c in &mut self.buf[l - sig..] {
            *c = b'0';
        }
        true
    }
}
