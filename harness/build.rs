//! Harvests a fuzzing dictionary from the tree under test: every string literal of `<text2num>/src/lang/<code>/*.rs`
//! that is a single alphabetic word. The harness filters it through the library (not a number, not a linking
//! word, not a separator) and uses the remainder as extra ordinary words, so that a rule keyed on a literal
//! word the harness authors never thought of still meets generated sentences containing that word.
use std::{env, fs, path::PathBuf};

fn main() {
    let manifest = fs::read_to_string("Cargo.toml").expect("Cargo.toml");
    let repo = manifest
        .lines()
        .find(|l| l.trim_start().starts_with("text2num"))
        .and_then(|l| l.split("path = \"").nth(1))
        .and_then(|r| r.split('"').next())
        .expect("text2num path in Cargo.toml")
        .to_string();
    println!("cargo:rerun-if-changed={}/src/lang", repo);
    println!("cargo:rerun-if-changed=Cargo.toml");
    let mut phrases_out = String::from("pub const SRC_PHRASES: [(&str, &[&str]); 7] = [\n");
    let mut out = String::from("pub const SRC_DICT: [(&str, &[&str]); 7] = [\n");
    for code in ["de", "en", "es", "fr", "it", "nl", "pt"] {
        let mut words: Vec<String> = Vec::new();
        let mut phrases: Vec<String> = Vec::new();
        let dir = PathBuf::from(&repo).join("src/lang").join(code);
        let mut files: Vec<PathBuf> = fs::read_dir(&dir).map(|d| d.filter_map(|e| e.ok().map(|e| e.path())).collect()).unwrap_or_default();
        files.sort();
        for f in files {
            if f.extension().map(|e| e != "rs").unwrap_or(true) {
                continue;
            }
            let src = fs::read_to_string(&f).unwrap_or_default();
            let mut rest = src.as_str();
            while let Some(i) = rest.find('"') {
                let after = &rest[i + 1..];
                match after.find('"') {
                    Some(j) => {
                        let lit = &after[..j];
                        let n = lit.chars().count();
                        if (2..=24).contains(&n) && lit.chars().all(|c| c.is_alphabetic()) {
                            words.push(lit.to_lowercase());
                        }
                        // two- or three-word expressions (multi-word vocabulary entries)
                        let parts: Vec<&str> = lit.split(' ').collect();
                        if (2..=3).contains(&parts.len()) && n <= 40 && parts.iter().all(|w| !w.is_empty() && w.chars().all(|c| c.is_alphabetic() || c == '\'')) {
                            phrases.push(lit.to_lowercase());
                        }
                        rest = &after[j + 1..];
                    }
                    None => break,
                }
            }
        }
        words.sort();
        words.dedup();
        out.push_str(&format!("    ({:?}, &{:?}),\n", code, words));
        phrases.sort();
        phrases.dedup();
        phrases_out.push_str(&format!("    ({:?}, &{:?}),\n", code, phrases));
    }
    out.push_str("];\n");
    phrases_out.push_str("];\n");
    out.push_str(&phrases_out);
    let dest = PathBuf::from(env::var("OUT_DIR").unwrap()).join("srcdict.rs");
    fs::write(dest, out).unwrap();
}
