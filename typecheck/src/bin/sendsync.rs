//! C14, type level: interpreters can be sent to and shared between threads.
//! This file compiles iff every interpreter type is Send + Sync + 'static.
use text2num::lang::{Dutch, English, French, German, Italian, Portuguese, Spanish};
use text2num::Language;
fn assert_shareable<T: Send + Sync + 'static>() {}
fn main() {
    assert_shareable::<Language>();
    assert_shareable::<German>();
    assert_shareable::<English>();
    assert_shareable::<Spanish>();
    assert_shareable::<French>();
    assert_shareable::<Italian>();
    assert_shareable::<Dutch>();
    assert_shareable::<Portuguese>();
    // and actually do it once
    let l = std::sync::Arc::new(Language::english());
    let l2 = l.clone();
    let h = std::thread::spawn(move || text2num::text2digits("twenty one", &*l2).ok());
    assert_eq!(h.join().unwrap().as_deref(), Some("21"));
    assert_eq!(text2num::text2digits("twenty two", &*l).ok().as_deref(), Some("22"));
}
