//! Builds whenever the library builds and still exports its interpreter types.
#[allow(unused_imports)]
use text2num::lang::{Dutch, English, French, German, Italian, Portuguese, Spanish};
#[allow(unused_imports)]
use text2num::Language;
fn main() {}
