#!/bin/bash
# tools/confirm_seed.sh <agent-worktree> <k> <seed-name>
# Independently confirms a seeded change in a scratch worktree (/tmp/confirm-wt), stores it under
# /verif/seeded/<seed-name>/ and runs every quick check against it (via tools/try_mutant.sh).
set -u
WT="$1"; K="$2"; NAME="$3"
P="$WT/out/patch$K.diff"; D="$WT/out/demo$K.rs"; M="$WT/out/meta$K.json"
[ -f "$P" ] && [ -f "$D" ] || { echo "missing $P or $D"; exit 2; }
C=${CONFIRM_WT:-/tmp/confirm-wt}
[ -d "$C" ] || git -C /repo worktree add -q --detach "$C" HEAD
cd "$C" && git checkout -q --detach "$(git -C /repo rev-parse HEAD)" && git checkout -- . && rm -rf tests
res() { echo "$1" >> /tmp/confirm-$NAME.log; echo "$1"; }
: > /tmp/confirm-$NAME.log
git apply "$P" || { res "APPLY-FAIL"; exit 1; }
only_src="$(git status --porcelain | awk '{print $2}' | grep -v '^src/' | head -1)"
[ -z "$only_src" ] || res "WARN: touches non-src file $only_src"
cargo build --offline >/dev/null 2>&1 && res "build-with-patch: ok" || { res "build-with-patch: FAIL"; git checkout -- .; exit 1; }
t="$(cargo test --offline 2>&1 | grep -E '^test result' | tr '\n' ' ')"; res "suite-with-patch: $t"
echo "$t" | grep -q "136 passed; 0 failed" || { res "SUITE-NOT-GREEN"; }
mkdir -p tests && cp "$D" tests/demo.rs
d1="$(timeout 600 cargo test --offline --test demo 2>&1 | grep -E '^test result|SIGABRT|overflowed|error\[' | head -3 | tr '\n' ' ')"; res "demo-with-patch: $d1"
git checkout -- . 
d2="$(timeout 600 cargo test --offline --test demo 2>&1 | grep -E '^test result|SIGABRT|overflowed|error\[' | head -3 | tr '\n' ' ')"; res "demo-without-patch: $d2"
rm -rf tests
S=/verif/seeded/$NAME; mkdir -p "$S"; cp "$P" "$S/patch.diff"; cp "$D" "$S/demo.rs"; [ -f "$M" ] && cp "$M" "$S/agent-meta.json"
cd /verif && ./tools/try_mutant.sh "$S/patch.diff" ${SEED_IDS:-} > /tmp/detect${DETECT_TAG:-}-$NAME.log 2>&1
tail -1 /tmp/detect${DETECT_TAG:-}-$NAME.log >> /tmp/confirm-$NAME.log
grep -E "rc=1|rc=2|FIRED" /tmp/detect${DETECT_TAG:-}-$NAME.log
