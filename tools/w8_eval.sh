#!/bin/bash
# tools/w8_eval.sh <agent-no> <k> <PID> [ids...] : confirm wave-8 change k of agent <agent-no> and run quick checks (lab)
set -u
i=$1; k=$2; pid=$3; shift 3
WT=/tmp/w8-$i
[ -f $WT/out/$k/patch.diff ] || { echo "no patch $i/$k"; exit 2; }
cp $WT/out/$k/patch.diff $WT/out/patch$k.diff; cp $WT/out/$k/demo.rs $WT/out/demo$k.rs
NAME=W${WAVE:-8}${pid}-agent$i-$k
mkdir -p /verif/seeded/$NAME; cp $WT/out/$k/notes.md /verif/seeded/$NAME/notes.md 2>/dev/null
SEED_IDS="$*" /verif/tools/labrun.sh /verif/tools/confirm_seed.sh $WT $k $NAME
