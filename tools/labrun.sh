#!/bin/bash
# tools/labrun.sh <command ...>: run the command with MUTLAB / CONFIRM_WT pointing at a free lab (1..4)
while true; do
  for i in 1 2 3 4; do
    exec 9>/tmp/mutlab-$i.lock
    if flock -n 9; then
      MUTLAB=/tmp/mutlab-$i CONFIRM_WT=/tmp/confirm-wt-$i "$@"; rc=$?
      flock -u 9; exit $rc
    fi
  done
  sleep 2
done
