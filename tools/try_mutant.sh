#!/bin/bash
# tools/try_mutant.sh <patch.diff> [ID ...]  — apply a seeded change to /repo, run the quick checks
# (all 18 by default), print which ones fire, and ALWAYS restore /repo afterwards.
set -u
PATCH="$(readlink -f "$1")"; shift
IDS="${*:-C01 C02 C03 C04 C05 C06 C07 C08 C09 C10 C11 C12 C13 C14 C15 C16 C17 C18}"
cd /verif
if [ -n "$(git -C /repo status --porcelain --untracked-files=no)" ]; then echo "/repo is dirty, refusing"; exit 2; fi
git -C /repo apply "$PATCH" || { echo "patch does not apply"; exit 2; }
trap 'git -C /repo checkout -- . ; echo "[/repo restored]"' EXIT
export VERIF_EVIDENCE_DIR=/tmp/mutant-evidence; mkdir -p "$VERIF_EVIDENCE_DIR"
FIRED=""
for id in $IDS; do
  out="$(./check "$id" quick 2>/dev/null)"; rc=$?
  line="$(echo "$out" | grep -E "^(violation|VIOLATION|INCONCLUSIVE)" | head -2 | cut -c1-260 | tr '\n' ' ')"
  printf "%s rc=%s %s\n" "$id" "$rc" "$line"
  [ $rc -eq 1 ] && FIRED="$FIRED $id"
done
echo "FIRED:$FIRED"
