#!/bin/bash
# tools/try_mutant.sh [--inplace] <patch.diff> [ID ...]
# Runs the quick checks (all 18 by default) against a seeded change and prints which ones fire.
#  default   : in a lab under /tmp/mutlab (a git worktree of /repo + a copy of /verif whose harness points
#              at that worktree) — /repo itself is never touched, so background runs are not disturbed.
#  --inplace : the prescribed way: git -C /repo apply, run /verif/check, git -C /repo checkout -- .
set -u
INPLACE=0; [ "${1:-}" = "--inplace" ] && { INPLACE=1; shift; }
PATCH="$(readlink -f "$1")"; shift
IDS="${*:-C01 C02 C03 C04 C05 C06 C07 C08 C09 C10 C11 C12 C13 C14 C15 C16 C17 C18}"
export VERIF_EVIDENCE_DIR=${MUTLAB:-/tmp/mutlab}-evidence; mkdir -p "$VERIF_EVIDENCE_DIR"
if [ $INPLACE -eq 1 ]; then
  V=/verif
  [ -z "$(git -C /repo status --porcelain --untracked-files=no)" ] || { echo "/repo is dirty, refusing"; exit 2; }
  git -C /repo apply "$PATCH" || { echo "patch does not apply"; exit 2; }
  trap 'git -C /repo checkout -- . ; echo "[/repo restored]"' EXIT
else
  L=${MUTLAB:-/tmp/mutlab}; V=$L/verif; mkdir -p $L
  [ -d $L/repo ] || git -C /repo worktree add -q --detach $L/repo HEAD
  (cd $L/repo && git checkout -q --detach "$(git -C /repo rev-parse HEAD)" && git checkout -- . && git clean -fdq -e target)
  mkdir -p $V && rsync -a --delete --exclude 'harness/target' --exclude 'harness/fuzz/target' --exclude 'harness/fuzz/corpus' --exclude 'harness/fuzz/artifacts' --exclude '.git' --exclude 'replays/found' --exclude 'design-probes' ${VERIF_SRC:-/verif}/ $V/
  sed -i "s#path = \"/repo\"#path = \"$L/repo\"#" $V/harness/Cargo.toml $V/typecheck/Cargo.toml
  (cd $L/repo && git apply "$PATCH") || { echo "patch does not apply"; exit 2; }
  trap '(cd ${MUTLAB:-/tmp/mutlab}/repo && git checkout -- .)' EXIT
fi
cd $V
FIRED=""
for id in $IDS; do
  out="$(./check "$id" quick 2>/dev/null)"; rc=$?
  line="$(echo "$out" | grep -E "^(violation|VIOLATION|INCONCLUSIVE)" | head -2 | cut -c1-260 | tr '\n' ' ')"
  printf "%s rc=%s %s\n" "$id" "$rc" "$line"
  [ $rc -eq 1 ] && FIRED="$FIRED $id"
done
echo "FIRED:$FIRED"
