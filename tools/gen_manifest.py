#!/usr/bin/env python3
"""Regenerates /verif/MANIFEST.json from the table below (run after adding a property module)."""
import json, os, subprocess
V = os.path.dirname(os.path.dirname(os.path.abspath(__file__)))
SPELL_NOTE = "Trusted: the reference spellers in harness/src/spell (written from each language's grammar, not from the interpreter's tables; validated in both directions, DESIGN.md §2.1), proptest, rustc. Excluded spellings and known findings are counted in the evidence."
def B(technique, text, note, ref): return dict(technique=technique, text=text, note=note, ref=ref)
BUILT = {
 "C01": B("property-based testing against a reference speller (proptest) + enumeration of all small integers",
   "Spells n in the chosen variant with an independent speller and requires text2digits, replace_numbers_in_text (in generated sentence contexts) and the scanner (exactly one occurrence over exactly the phrase) to give decimal(n). Quick: canonical spelling of every n < 20 000 per language + 3M structured random (n, variant, context); thorough: every n < 10^6 + 40M. Exploration: every vocabulary arm, guard and variant dimension is hit thousands of times; a defect confined to one unstructured integer out of 10^12 can be missed.",
   SPELL_NOTE, "§3 C01, §2.1"),
 "C02": B("metamorphic / structural property-based testing (splice oracle, id-recording tokens)",
   "For generated texts (clean, dirty, arbitrary unicode) and thresholds: tokenizer concatenation is lossless, rewrite == our splice of the reported occurrences, no occurrence => identical output, numberless-by-construction texts unchanged; on id-recording token streams with hints (three per text: all tokens, without whitespace tokens, word tokens only - so that occurrences can be directly adjacent) each token is kept or handed exactly once, in order, to the one occurrence covering it, whether the replacement constructor reads none, one or all of the tokens it is handed; a whole-run procedure repeats the splice clause on long documents (up to 2^16 tokens quick, 2^20 thorough). 2M cases quick, 25M thorough + libFuzzer target text_api (thorough).",
   "Clause 2 compares two routes through the library; splice, concat and id accounting are ours. Uses the verif-hooks tokenizer re-export.", "§3 C02"),
 "C03": B("property-based fuzzing of every entry point under catch_unwind + exhaustive tiny strings",
   "Every public entry point is called on arbitrary UTF-8 (any::<String>, \\PC*, hostile fragment pool, dirty sentences, long repeated texts), all languages, thresholds incl. NaN/inf; a panic is a violation; text2digits must answer Err for texts without words. Also driven: own-token streams whose lowercase form is normalised (possibly empty), a lazy search over a practically endless stream, exec_group on raw word groups, texts of an exact byte length of 2^k-4..2^k+1 padded with characters whose case mapping grows. All strings of length <= 3 over a 9-char alphabet are enumerated. 29 very long inputs (4*10^5 / 2*10^6 repetitions) run in a child process on a default 2 MiB stack: the child dying is a violation attributed to the running input. Non-termination shows as a time cap expiring (exit 2). libFuzzer target text_api in the thorough tier.",
   "Debug assertions and overflow checks are ON in the harness profile so arithmetic underflow traps. Stack overflow / abort would kill the process (exit != 0,1 => inconclusive).", "§3 C03"),
 "C04": B("property-based testing against a reference ordinal speller + enumeration of all ranks <= 3000 x inflections",
   "Ordinal speller renders rank n with inflection and stem variant; text2digits and the scanner must give decimal(n)+marker, flagged ordinal, value n. Quick: every rank <= 3000 (es/pt 1999) x every inflection + 2M generated; thorough: every rank to 10^6 + 25M. Every ordinal vocabulary entry occurs in the enumerated part, so a misspelt table entry is hit deterministically.",
   SPELL_NOTE, "§3 C04"),
 "C05": B("property-based testing against reference spellers (decimal phrases) + enumeration of all fractions of <= 3 digits",
   "int SEP fraction phrases must become one numeral 'n MARK d' with value bit-equal to n.d at thresholds 0/10/inf; separator with no number before it / nothing usable after it stays a word (three negative shapes); integer parts of 16+ digits built with the top scale words. Enumerated: all d of length <= 3 x 5 integers x 7 languages; generated 2M quick / 25M thorough.",
   SPELL_NOTE, "§3 C05"),
 "C06": B("property-based testing with a validity predicate over all reported occurrences",
   "For generated token streams (pipeline tokens, own tokens with hints, and the same stream without whitespace tokens / reduced to word tokens so that occurrences can be directly adjacent; biased to ordinal+separator+digit shapes): spans inside the stream, increasing, disjoint, on word tokens, no flagged token inside; text is a well-formed numeral of the language; value bit-equal to its reading; ordinal flag <=> marker; the digits of a non-decimal occurrence equal the rendering of the digit builder exec_group returns for its words (exact digits beyond 2^53). One case in 25 is an English / German decimal of 35-56 dictated digits whose exact value is the midpoint between two adjacent doubles (optionally one digit longer / shorter), so a value computed from a shortened form shows. 4M quick / 40M thorough + libFuzzer (thorough).",
   "Marker sets per language are those the library emits today (listed in the evidence assumptions).", "§3 C06"),
 "C07": B("differential property-based testing (scanner vs validator)",
   "For generated texts: each non-decimal occurrence's words validate to the same digits; every validated run of <= 6 words is seen by the scanner as exactly one number with those digits; at threshold 0 no uncovered, unflagged word validates alone; every raw segment between two ordinary words (punctuation included) that the validator accepts is seen by the un-annotated scanner as exactly that one number; clauses 1 and 3 also on own-token streams with separation / not-a-number hints and on the same streams reduced to their word tokens. 2M quick / 25M thorough + libFuzzer (thorough).",
   "Both sides are the library, as the property states; word extraction and run enumeration are ours.", "§3 C07"),
 "C08": B("exhaustive enumeration of all pairs below 100 + property-based variants, reverse-speller oracle; exact dictation oracle",
   "All 99x100x2 (a,b,joiner) per language with canonical spellings and every spelling variant of both sides for bare tens x b<20 are enumerated in every tier, random variants generated; each occurrence's covered words must be a standard spelling (reverse table of all variants of n < 1000) of its numeral and every word must be covered. Ordinal pairs with independent inflections are checked against a reverse table of all ordinal spellings (components that disagree in gender/number must not fuse); cardinal + ordinal pairs below 100 (all enumerated in two inflection choices) against the same table ('ten first' is not 11st). Dictation: all digit strings of length <= 4 enumerated, 5..8 generated (zero-run biased), exact expected grouping.",
   SPELL_NOTE + " 'Both numbers or the single number spelled by exactly those words' is checked as any segmentation into standard spellings (needed for fr 'vingt quatre vingt deux').", "§3 C08"),
 "C09": B("model-based + metamorphic property-based testing of the lone-number policy",
   "On clean tagged streams with two thresholds (pool incl. NaN/inf and exact values of the text's numbers +-1): sub-list/monotonicity relations, t<=0/NaN rewrites all, non-small numbers always rewritten, and an independent policy model decides every small number whose gaps are decidable; the same verdicts on caller-built streams with flagged gap tokens; fixed relations enumerated (digit triples always rewritten, lone digit hidden iff value < t, gaps of 1..257 ignorable tokens, every linking word x 12 near-miss derivations, every single-word literal of the tree's language modules that is neither number nor linking word placed between two numbers). 3M quick / 30M thorough.",
   "The model abstains (counted) where the statement does not decide (conjunction/separator word or stray number-like word in the gap). Linking vocabulary copied from the library's published lists.", "§3 C09, §2.3"),
 "C10": B("metamorphic property-based testing (A S B == A ++ S ++ B; punctuation separates)",
   "rewrite(A S B,t) == rewrite(A,t) S rewrite(B,t) for generated A, B (with the French determiner+neuf shapes, English o, dangling conjunction/separator) and a strong separator of 3-4 ordinary words + period; spell(a) p spell(b) -> a p b for 16 punctuation separators (incl. typographic quotes) and, enumerated, every punctuation mark / symbol of the common Unicode blocks (1699 characters) glued or spaced between three number pairs in seven languages; whole-run procedure: a prefix of W ordinary words (2W tokens just above 2^10..2^16, thorough 2^20) never changes how a tail with punctuation-linked small numbers is rewritten. 2M quick / 25M thorough.",
   "Separator words exclude the French determiners un/le/du/l'/numéro that act at distance <= 3 by documented design.", "§3 C10"),
 "C11": B("metamorphic property-based testing (recasing)",
   "Occurrences, validation result and untouched words are compared between a text and its recasing (upper, lower, capitalised, per-char mask) restricted to reversible one-to-one case mappings; the same on own-token streams carrying separation / not-a-number hints (all tokens, and word tokens only). 2M quick / 25M thorough.",
   "Cases where lower(r(s)) != lower(s) are discarded and counted (property precondition).", "§3 C11"),
 "C12": B("model-based property testing (proptest op sequences vs reference model) + exhaustive short traces",
   "Generated operation traces (400k quick / 12M thorough, length 1..40, arguments up to 40 digits and one in 22 of 41..140 digits, 1 in 200 with extreme arguments: 250..700 leading zeros, positions/shifts around 2^16 and up to 70 000) and every trace of length <= 3 (quick) / <= 4 (thorough) over a 19-op alphabet are run against an independent reference model of the builder; all queries compared after every step, plus the statement's direct invariants.",
   "Trusted: the reference model (src/model/digit.rs, from the doc comments). push is exempt from the frozen clause, fput from digit preservation (documented). is_range_free only with a<b.", "§3 C12, §2.2"),
 "C13": B("differential property-based testing (facade vs concrete type) + 7x7 ISO lookup table",
   "Every API function and trait method (incl. per-word apply/apply_decimal with builder observation and basic_annotate flags) must agree between Language::x() and X::new() on generated inputs; the annotation pass is also compared on pre-flagged caller tokens; get_interpreter_for resolves each code to the matching variant, reads its own language, and rejects generated non-codes (digits, gibberish, language names, byte-truncation / full-width look-alikes of the codes). 600k quick / 8M thorough.",
   "Two-letter alphabetic strings and code+region forms are not judged (statement does not pronounce on them).", "§3 C13"),
 "C14": B("stateful property-based testing (call histories vs fresh interpreter) + 16-thread stress + compile-time Send/Sync check + child-process silence check",
   "Generated histories (30k quick / 400k thorough, up to 300 calls over 8 public functions and 7 languages) on one shared interpreter set must equal fresh-interpreter results; 16 threads sharing one interpreter replay 20k-100k generated calls; cold-start rounds (8 threads released by a barrier make the first calls on a freshly built interpreter) and hot loops (16 threads x 8 long compounds per language); a battery of ordinary calls is repeated after ~130 caught panics of a user-supplied interpreter inside every entry point (same and fresh interpreters must answer as before); histories include a panicking user interpreter and references are computed in a fixed order; a separate crate asserts Send+Sync+'static; a child process runs a workload covering every vocabulary arm (plus numerals beyond 2^53) with stdout/stderr piped and both must stay empty (a violation is bisected to one workload item).",
   "Thread interleavings are stressed on the real scheduler, not enumerated or controlled (sound today: no interior mutability; the type check and history test guard that).", "§3 C14"),
 "C15": B("property-based testing of the token-stream contract (counting iterator adaptor; hint == comma metamorphic relation)",
   "Own-token streams with hints (forced inside numbers in half of the cases, long repeated streams, hyphens as separate tokens, one stream in four without whitespace tokens so that occurrences are directly adjacent): lazy == batch through next / fold / for_each / count / last / nth / skip (also beyond the end) / step_by / peekable / two alternately advanced searches, honest size_hint (also over inputs whose own size_hint is (0, Some(usize::MAX)) or (0, None)), ends cleanly, consumes nothing before the first request and never beyond the second number after the one returned; separated hint (carried as a flag on the token or as a pause on its predecessor read through `previous`) keeps tokens apart and is equivalent to an inserted comma; flagged tokens are in no occurrence. 1.5M quick / 20M thorough.",
   "Hints only on tokens the scanner examines (not whitespace / bare '-').", "§3 C15"),
 "C16": B("property-based testing against a reference speller + enumeration (k zeros x all n < 2000)",
   "k zero words + spell(n) must validate and rewrite to '0'^k n as one occurrence with value n; spell(n) zero -> 'n 0'; lone zero -> 0. Enumerated k<=6 x every n<2000 and g*1000^j; 3M generated quick / 30M thorough.",
   SPELL_NOTE, "§3 C16"),
 "C17": B("metamorphic property-based testing (whitespace substitution over all 25 Unicode whitespace characters)",
   "Occurrence texts/values/flags and word-index spans, validation result, and pass-through of whitespace outside spans are compared between s and w(s). 2M quick / 25M thorough.",
   "Uses the verif-hooks tokenizer to map spans to word indices.", "§3 C17"),
 "C18": B("reference-rule + metamorphic property-based testing, exhaustive neighbour-class table",
   "Each `o` is replaced by `zero` or an ordinary word according to an independent neighbour rule on the raw tokens; occurrences must be identical token for token and non-zero-like `o` kept verbatim. All 22x22 neighbour classes x {o, o o, O} x 3 joiners x 2 thresholds enumerated; 3M generated quick / 30M thorough.",
   "'number word' for a neighbour is decided by the validator (text2digits(token) is Ok), an independent route from the annotation code under test.", "§3 C18"),
}
PENDING_REASON = "check not built yet in this round (work in progress; planned per DESIGN.md §3)"
ids = [json.loads(l)["id"] for l in open(os.path.join(V, "properties.jsonl"))]
checks = []
for i in ids:
    if i in BUILT:
        b = BUILT[i]
        checks.append({
            "property_id": i,
            "quick_cmd": f"./check {i} quick",
            "thorough_cmd": f"./check {i} thorough",
            "evidence_file": f"/verif/evidence/{i}.json",
            "replay_cmd_template": f"./check {i} quick --replay {{path}}",
            "engine": "t2n-verif",
            "level_claimed": {"category": "exploration", "text": b["text"], "design_ref": b["ref"]},
            "level_note": b["note"],
            "technique": b["technique"],
        })
manifest = {
    "version": 1,
    "setup_cmd": "cd /verif/harness && CARGO_NET_OFFLINE=true cargo build --release --offline",
    "hooks": {
        "guard": "cargo feature `verif-hooks` of the text2num crate (off by default)",
        "enable": "the harness depends on text2num by path with features=[\"verif-hooks\"] (harness/Cargo.toml); cargo build --release in /verif/harness rebuilds /repo's working tree with the hook on",
        "baseline_off_cmd": "cd /repo && cargo test --workspace --no-fail-fast --offline",
        "source_commits": subprocess.run(["git", "-C", "/repo", "log", "--format=%H %s", "--grep=^verif hooks"], capture_output=True, text=True).stdout.strip().splitlines(),
        "add_only": True,
    },
    "engines": [
        {"name": "t2n-verif", "path": "/verif/harness", "serves_properties": sorted(BUILT), "kind_free_text": "Rust binary: sharded proptest 1.11 TestRunner (fixed seeds, shrinking, JSON replay files) + enumerated sub-domains through the same oracles; reference spellers/models in src/spell, src/model"},
    ],
    "checks": checks,
    "not_applicable": [{"property_id": i, "reason": PENDING_REASON} for i in ids if i not in BUILT],
    "notes": "Exit codes: 0 held / 1 VIOLATION / 2 inconclusive (build failure, watchdog). VERIF_SEED selects the PRNG streams; known findings in /verif/known_findings.json.",
}
json.dump(manifest, open(os.path.join(V, "MANIFEST.json"), "w"), indent=1, ensure_ascii=False)
print("wrote MANIFEST.json with", len(checks), "checks")
