#!/usr/bin/env python3
"""Regenerates /verif/MANIFEST.json from the table below (run after adding a property module)."""
import json, os, subprocess
V = os.path.dirname(os.path.dirname(os.path.abspath(__file__)))
BUILT = {
 "C12": dict(technique="model-based property testing (proptest op sequences vs reference model) + exhaustive short traces",
             text="Generated operation traces (400k quick / 12M thorough, length 1..40) and every trace of length <=3 (quick) / <=4 (thorough) over a 19-op alphabet are run against an independent reference model of the builder; all queries compared after every step, plus the statement's direct invariants (failed step changes nothing, digits kept, documented value change, frozen refusal, leading zeros). Exploration: finds violations reachable by short/medium traces, proves nothing beyond the enumerated traces.",
             note="Trusted: the reference model (src/model/digit.rs, written from the doc comments), proptest, rustc. push is exempt from the frozen clause and fput from digit preservation (documented). is_range_free only with a<b.",
             ref="§3 C12, §2.2"),
}
PENDING_REASON = "check not built yet in this round (work in progress; planned per DESIGN.md §3)"
ids = [json.loads(l)["id"] for l in open(os.path.join(V, "properties.jsonl"))]
checks = []
for i in ids:
    if i in BUILT:
        b = BUILT[i]
        checks.append({
            "property_id": i,
            "quick_cmd": f"./check {i} quick",
            "thorough_cmd": f"./check {i} thorough",
            "evidence_file": f"/verif/evidence/{i}.json",
            "replay_cmd_template": f"./check {i} quick --replay {{path}}",
            "engine": "t2n-verif",
            "level_claimed": {"category": "exploration", "text": b["text"], "design_ref": b["ref"]},
            "level_note": b["note"],
            "technique": b["technique"],
        })
manifest = {
    "version": 1,
    "setup_cmd": "cd /verif/harness && CARGO_NET_OFFLINE=true cargo build --release --offline",
    "hooks": {
        "guard": "cargo feature `verif-hooks` of the text2num crate (off by default)",
        "enable": "the harness depends on text2num by path with features=[\"verif-hooks\"] (harness/Cargo.toml); cargo build --release in /verif/harness rebuilds /repo's working tree with the hook on",
        "baseline_off_cmd": "cd /repo && cargo test --workspace --no-fail-fast --offline",
        "source_commits": subprocess.run(["git", "-C", "/repo", "log", "--format=%H %s", "--grep=^verif hooks"], capture_output=True, text=True).stdout.strip().splitlines(),
        "add_only": True,
    },
    "engines": [
        {"name": "t2n-verif", "path": "/verif/harness", "serves_properties": sorted(BUILT), "kind_free_text": "Rust binary: sharded proptest 1.11 TestRunner (fixed seeds, shrinking, JSON replay files) + enumerated sub-domains through the same oracles; reference spellers/models in src/spell, src/model"},
    ],
    "checks": checks,
    "not_applicable": [{"property_id": i, "reason": PENDING_REASON} for i in ids if i not in BUILT],
    "notes": "Exit codes: 0 held / 1 VIOLATION / 2 inconclusive (build failure, watchdog). VERIF_SEED selects the PRNG streams; known findings in /verif/known_findings.json.",
}
json.dump(manifest, open(os.path.join(V, "MANIFEST.json"), "w"), indent=1, ensure_ascii=False)
print("wrote MANIFEST.json with", len(checks), "checks")
