#!/usr/bin/env python3
"""Build /verif/seeded/<name>/meta.json from the agent's meta, my confirmation log and the detection log,
and regenerate /verif/seeded/README.md (which checks catch which seeded changes)."""
import json, os, re, glob, sys
S='/verif/seeded'
rows=[]
for d in sorted(glob.glob(S+'/*/')):
    name=os.path.basename(d.rstrip('/'))
    meta_p=os.path.join(d,'meta.json')
    meta=json.load(open(meta_p)) if os.path.exists(meta_p) else {}
    am=os.path.join(d,'agent-meta.json')
    if os.path.exists(am):
        try: a=json.load(open(am))
        except Exception: a={}
        meta.setdefault('property', a.get('property', name.split('-')[0]))
        meta.setdefault('summary', a.get('summary',''))
        meta.setdefault('needs_to_manifest', a.get('needs_to_manifest',''))
        meta.setdefault('failing_input', a.get('failing_input',''))
    meta.setdefault('property', name.split('-')[0])
    cl='/tmp/confirm-%s.log'%name
    if os.path.exists(cl):
        lines=open(cl).read().splitlines()
        meta['confirmation']={'what_i_ran':'scratch worktree /tmp/confirm-wt: git apply patch.diff; cargo build --offline; cargo test --offline (suite must stay green); cp demo.rs tests/demo.rs; cargo test --offline --test demo (must fail); git checkout -- .; cargo test --offline --test demo (must pass)',
                              'log':[l for l in lines if not l.startswith('FIRED')]}
    dl='/tmp/detect-%s.log'%name
    if os.path.exists(dl):
        txt=open(dl).read()
        fired=re.findall(r'^FIRED:(.*)$',txt,re.M)
        meta['detected_by_quick']=fired[-1].split() if fired else []
        meta['detection_lines']=[l[:300] for l in txt.splitlines() if ' rc=1 ' in l or ' rc=2 ' in l]
    d2='/tmp/detect2-%s.log'%name
    for tag in ('detect3','detect4','detect5'):
        dn='/tmp/%s-%s.log'%(tag,name)
        if os.path.exists(dn) and 'FIRED: C' in open(dn).read():
            d2=dn
    if os.path.exists(d2):
        txt=open(d2).read()
        fired=re.findall(r'^FIRED:(.*)$',txt,re.M)
        meta['detected_after_strengthening']=fired[-1].split() if fired else []
        meta['detection_lines_after_strengthening']=[l[:300] for l in txt.splitlines() if ' rc=1 ' in l][:4]
    json.dump(meta,open(meta_p,'w'),indent=1,ensure_ascii=False)
    rows.append((name,meta))
with open(S+'/README.md','w') as f:
    f.write('# Seeded changes (independent sub-agents) and which quick checks catch them\n\n')
    f.write('Each directory holds `patch.diff` (apply with `git -C /repo apply`), `demo.rs` (an integration test that fails with the change and passes without), `meta.json`.\n\n')
    f.write('| seed | written against | what it breaks / needs | caught by (quick tier) |\n|---|---|---|---|\n')
    for name,m in rows:
        det=' '.join(m.get('detected_by_quick',[])) or '**missed**'
        if m.get('detected_after_strengthening'): det+=' (after strengthening: '+' '.join(m['detected_after_strengthening'])+')'
        summ=(m.get('summary','') or '').replace('|','/').replace('\n',' ')[:220]
        f.write(f"| {name} | {m.get('property','')} | {summ} | {det} |\n")
print('wrote',len(rows),'metas')
